"""C19 - gaps, eps-coverage, eps-F1 and hyper-volume agree with their geometric definitions.

leg 1: TLC computes on integer 2-D cones (orthant, Pythagorean acute/obtuse, 3-facet) and every value sequence of a 3x3 lattice:
       squared gaps and squared cover distances as exact rationals and proves them against their definitions (gap feasible for every
       lattice unit direction of the cone, zero iff not dominated in the interior; cover distance minimal over lattice witnesses,
       witness => covered, monotone in eps, reflexive); eps-F1 in [0,1], = 1 for the true Pareto set, order-independent,
       non-decreasing in eps; lattice hyper-volume of the true front >= that of any predicted subset.
leg 2: the dumped tables are replayed into get_smallmij / get_delta / is_covered / get_uncovered_size / get_uncovered_set /
       calculate_epsilonF1_score (custom Dataset) / calculate_hypervolume_discrepancy_for_model (lattice-valued stub problem and model).
"""
import concurrent.futures as cf
import math

from . import tlc
from .pool import chunks, pmap
from .tlaval import seq, to_tla

CONES = {"orth": [[1, 0], [0, 1]], "pyobt": [[3, 4], [4, 3]], "pyac": [[-3, 4], [4, -3]], "k3": [[1, 0], [0, 1], [1, 1]],
         "k3b": [[2, -1], [-1, 2], [1, 1]],     # k3b: facets with DIFFERENT alpha (3/5 for the acute pair, 1 for the diagonal facet)
         "skew": [[2, 1], [-1, 3]],
         "wide": [[0, 1], [1, 2]]}              # a wide cone (rays (1,0) and (-2,1)): the all-ones direction is NOT in its dual, so a design
                                                # can be dominated by one with a SMALLER coordinate total             # square but NOT symmetric (hyper-volume table only): W and its transpose describe different cones
EPS2 = [(0, 1), (1, 1), (4, 1), (1, 4)]
INVS = {"gap": ["GapThm", "CovThm", "CovMono", "CovRefl"], "f1": ["F1Range", "F1True", "F1Mono", "F1Perm"], "hv": ["HVThm"]}


def _run(ctx, part, N, cones, timeout=3000):
    out = []

    def one(cone):
        mc = ("---- MODULE MCMet ----\nEXTENDS MetricsTable\nTheCones == { %s }\nTheEps == { %s }\n====\n"
              % (to_tla(CONES[cone]), ", ".join(to_tla(list(e)) for e in EPS2)))
        cfg = ('CONSTANTS\n N = %d\n G = 2\n Cones <- TheCones\n Eps2 <- TheEps\n Part = "%s"\n Lq = 5\nINIT Init\nNEXT Next\n' % (N, part)
               + "".join("INVARIANT %s\n" % i for i in INVS[part]))
        return cone, tlc.dump_states("MCMet", cfg, files={"MCMet.tla": mc}, workers=2, timeout=timeout)

    with cf.ThreadPoolExecutor(max_workers=8) as ex:
        for cone, (res, states) in ex.map(one, cones):
            ctx.add_tlc(res, "MetricsTable/%s/N=%d/%s" % (part, N, cone))
            if res.violated or not res.ok:
                raise tlc.MachineryError("MetricsTable %s theorem %s fails for %s (%s)" % (part, res.violated, cone, res.error))
            for st in states:
                out.append((cone, st))
    return out


def _unit(W):
    import numpy as np
    W = np.array(W, dtype=float)
    return W / np.linalg.norm(W, axis=1, keepdims=True)


def _replay_gap(rows):
    import warnings
    warnings.filterwarnings("ignore")
    import numpy as np
    from vopy.ordering_cone import OrderingCone
    from vopy.utils import get_delta, get_smallmij, get_uncovered_set, get_uncovered_size, is_covered
    bad = []
    ncalls = 0
    cache = {}
    for cone, V, gap, cov, d2 in rows:
        if cone not in cache:
            Wu = _unit(CONES[cone])
            cache[cone] = (Wu, OrderingCone(Wu).alpha)
        Wu, alpha = cache[cone]
        Va = np.array(V, dtype=float)
        exp = np.sqrt(np.array([g[0] / g[1] for g in gap]))
        got = np.asarray(get_delta(Va, Wu, alpha)).flatten()
        ncalls += 1
        if got.shape != exp.shape or not np.allclose(got, exp, atol=5e-6):
            bad.append({"kind": "get_delta", "cone": cone, "V": V, "expected": exp.tolist(), "got": got.tolist()})
        got_i = np.asarray(get_delta(np.array(V), Wu, alpha)).flatten()          # the same value set as an INTEGER array
        ncalls += 1
        if got_i.shape != exp.shape or not np.allclose(got_i, exp, atol=5e-6):
            bad.append({"kind": "get_delta-int-dtype", "cone": cone, "V": V, "expected": exp.tolist(), "got": got_i.tolist()})
        n = len(V)
        m01 = float(get_smallmij(Va[0], Va[1], Wu, alpha))
        e01 = min(max(0.0, float(Wu[k] @ (Va[1] - Va[0]))) / float(alpha[k, 0]) for k in range(len(Wu)))
        if abs(m01 - e01) > 5e-6 or m01 > exp[0] + 5e-6:
            bad.append({"kind": "get_smallmij", "cone": cone, "V": V, "expected": e01, "got": m01})
        for (en, ed), pairs in cov.items():
            eps = math.sqrt(en / ed)
            if en == 0:
                continue
            for i in range(n):
                for j in range(n):
                    dn, dd = d2[(i + 1, j + 1)]
                    if dn * ed == en * dd:
                        continue                      # distance exactly eps: boundary, not compared
                    g = bool(is_covered(Va[i], Va[j], eps, Wu))
                    ncalls += 1
                    if g != ((i + 1, j + 1) in pairs):
                        bad.append({"kind": "is_covered", "cone": cone, "vi": V[i], "vj": V[j], "eps": eps, "expected": (i + 1, j + 1) in pairs, "got": g})
            # uncovered set / size of {0..n-1} w.r.t. the singleton {last}: skip boundary rows
            j = n - 1
            if all(d2[(i + 1, j + 1)][0] * ed != en * d2[(i + 1, j + 1)][1] for i in range(n)):
                expu = [i for i in range(n) if (i + 1, j + 1) not in pairs]
                gu = list(get_uncovered_set(list(range(n)), [j], Va, eps, Wu))
                gs = int(get_uncovered_size(Va, Va[[j]], eps, Wu))
                ncalls += 2
                if gu != expu or gs != len(expu):
                    bad.append({"kind": "get_uncovered", "cone": cone, "V": V, "eps": eps, "expected": expu, "got": gu, "got_size": gs})
                # the same CONE given by rows that are not unit vectors (integer rows, and rows scaled by different positive factors):
                # eps-coverage is a statement about the cone, not about the matrix that describes it
                Wr = np.array(CONES[cone], dtype=float) * np.array([[3.0], [0.5], [2.0], [1.0]])[:len(Wu)]
                gu2 = list(get_uncovered_set(list(range(n)), [j], Va, eps, Wr))
                gs2 = int(get_uncovered_size(Va, Va[[j]], eps, Wr))
                ncalls += 2
                if gu2 != expu or gs2 != len(expu):
                    bad.append({"kind": "get_uncovered-rowscaled", "cone": cone, "V": V, "eps": eps, "W": Wr.tolist(), "expected": expu, "got": gu2, "got_size": gs2})
    return ncalls, bad


def _replay_f1(rows):
    import warnings
    warnings.filterwarnings("ignore")
    import numpy as np
    from vopy.order import PolyhedralConeOrder
    from vopy.ordering_cone import OrderingCone
    from vopy.utils.evaluate import calculate_epsilonF1_score
    from . import algotrace as AT
    bad = []
    ncalls = 0
    orders = {}
    raw_orders = {}
    for cone, V, true, pred, f1, bd in rows:
        if cone not in orders:
            orders[cone] = PolyhedralConeOrder(OrderingCone(_unit(CONES[cone])))
        name = "VVF1_%d" % len(V)
        cls = AT.register_dataset(name, np.arange(len(V), dtype=float)[:, None] + 0.5 * np.arange(len(V))[:, None] ** 2, np.array(V, dtype=float), keep_raw_out=True)
        ds = cls()
        for dt in (float, int):
            ds.out_data = np.array(V, dtype=dt)          # float and integer value sets (the repository's own evaluate test passes integers)
            for (en, ed), (num, den) in f1.items():
                if en == 0 or bd[(en, ed)]:
                    continue
                eps = math.sqrt(en / ed)
                got = float(calculate_epsilonF1_score(ds, orders[cone], np.array(sorted(i - 1 for i in true)), [i - 1 for i in pred], eps))
                ncalls += 1
                if not (abs(got - num / den) < 1e-9):
                    bad.append({"kind": "epsF1" + ("" if dt is float else "-int-dtype"), "cone": cone, "V": V, "true": sorted(true), "pred": list(pred), "eps": eps, "expected": [num, den], "got": got})
                if dt is float:
                    if cone not in raw_orders:
                        raw_orders[cone] = PolyhedralConeOrder(OrderingCone(np.array(CONES[cone], dtype=float) * np.array([[3.0], [0.5], [2.0], [1.0]])[:len(CONES[cone])]))
                    got2 = float(calculate_epsilonF1_score(ds, raw_orders[cone], np.array(sorted(i - 1 for i in true)), [i - 1 for i in pred], eps))
                    ncalls += 1
                    if not (abs(got2 - num / den) < 1e-9):
                        bad.append({"kind": "epsF1-rowscaled", "cone": cone, "V": V, "true": sorted(true), "pred": list(pred), "eps": eps, "expected": [num, den], "got": got2})
    return ncalls, bad


def _replay_hv(rows):
    import warnings
    warnings.filterwarnings("ignore")
    import numpy as np
    from vopy.maximization_problem import ContinuousProblem
    from vopy.order import PolyhedralConeOrder
    from vopy.ordering_cone import OrderingCone
    from vopy.utils.evaluate import calculate_hypervolume_discrepancy_for_model
    bad = []
    ncalls = 0
    orders = {}
    for cone, V, Y, hvt, hvp in rows:
        if cone not in orders:
            orders[cone] = PolyhedralConeOrder(OrderingCone(np.array(CONES[cone], dtype=float)))
        F = np.array(V, dtype=float)
        Yp = np.array(Y, dtype=float)
        n = len(V)

        class Prob(ContinuousProblem):
            in_dim = 1
            out_dim = 2
            bounds = [(0.0, 1.0)]

            def __init__(self):
                super().__init__(0.01)

            def evaluate_true(self, x):
                idx = np.minimum((np.asarray(x)[:, 0] * n).astype(int), n - 1)
                return F[idx]

        class Mod:
            def predict(self, x):
                idx = np.minimum((np.asarray(x)[:, 0] * n).astype(int), n - 1)
                return Yp[idx], None

        np.random.seed(3)
        ncalls += 1
        try:
            got = float(calculate_hypervolume_discrepancy_for_model(orders[cone], Prob(), Mod()))
            raised = False
        except AssertionError:
            raised = True
        diff = hvt - hvp
        if diff <= 0:
            ok = raised
        else:
            ok = (not raised) and abs(got - math.log(diff)) < 1e-9
        if not ok:
            bad.append({"kind": "hypervolume", "cone": cone, "V": V, "Y": Y, "expected_diff": diff, "got": None if raised else got, "raised": raised})
    return ncalls, bad


def run(ctx):
    import vopy.utils.evaluate  # noqa: F401
    thorough = ctx.tier == "thorough"
    cones = [c for c in CONES if c != "skew"]      # "wide" joins the gap tables; the F1 table keeps its own list in the quick tier
    g = _run(ctx, "gap", 3 if thorough else 2, cones) + ([] if thorough else _run(ctx, "gap", 3, ["pyobt"]))
    rows_g = []
    for cone, st in g:
        a = st["ans"]
        rows_g.append((cone, [list(v) for v in seq(st["cfg"]["V"])], [list(x) for x in seq(a["gap"])], {e: set(p) for e, p in a["cov"].items()},
                       {k: v for k, v in a["d2"].items()}))
    f = _run(ctx, "f1", 3, cones if thorough else ["orth", "pyobt"])        # k3b (unequal alphas) is in the gap table of both tiers
    rows_f = [(cone, [list(v) for v in seq(st["cfg"]["V"])], set(st["ans"]["true"]), list(seq(st["cfg"]["pred"])), dict(st["ans"]["f1"]), dict(st["ans"]["bd"]))
              for cone, st in f]
    h = _run(ctx, "hv", 2, ["orth", "pyobt", "pyac", "skew"])
    rows_h = [(cone, [list(v) for v in seq(st["cfg"]["V"])], [list(v) for v in seq(st["cfg"]["Y"])], st["ans"]["hvtrue"], st["ans"]["hvpred"]) for cone, st in h]
    import random
    rnd = random.Random(ctx.seed)
    if not thorough:
        rnd.shuffle(rows_f)
        rows_f = rows_f[:3000]
        rnd.shuffle(rows_h)
        rows_h = rows_h[:600]
    out = pmap(_replay_gap, chunks(rows_g, 64)) + pmap(_replay_f1, chunks(rows_f, 64)) + pmap(_replay_hv, chunks(rows_h, 32))
    ncalls = sum(n for n, _ in out)
    for b in [x for _, bs in out for x in bs]:
        ctx.violation("metric-%s|%s" % (b["kind"], b["cone"]), b, "metric mismatch: %s" % str(b)[:400])
    ctx.traces = len(rows_g) + len(rows_f) + len(rows_h)
    ctx.evaluations = ncalls
    for cone, V, gap, cov, d2 in rows_g:
        if any(x[0] > 0 for x in gap):
            ctx.nontriv((cone, V))
    for cone, V, true, pred, f1, bd in rows_f:
        if 0 < len(pred) and len(true) < len(V):
            ctx.nontriv((cone, V, pred))
    ctx.extra.update({"gap_rows": len(rows_g), "f1_rows": len(rows_f), "hv_rows": len(rows_h), "code_calls": ncalls,
                      "f1_rows_in_table": len(f), "hv_rows_in_table": len(h)})
    ctx.rule = ("all value sequences of 2 (and 3) points on a 3x3 lattice x 4 cones for gaps / cover; all 3-point sequences x all ordered predicted index "
                "sets for F1; all pairs (truth, prediction) of 2-point sequences for hyper-volume; quick replays a random subset of the F1 / HV tables; "
                "non-trivial = positive gap somewhere / proper prediction with a dominated design")
    ctx.sample({"cone": rows_g[5][0], "V": rows_g[5][1], "gap_sq": rows_g[5][2]})
    ctx.sample({"cone": rows_f[5][0], "V": rows_f[5][1], "pred": rows_f[5][3], "f1": {str(k): v for k, v in rows_f[5][4].items()}})
    ctx.assumptions += ["rows with a gap or cover distance exactly equal to eps are boundary rows and are not compared with the solver-based code",
                        "Pythagorean cones so that unit-normalised rows have rational alpha"]


def replay(body):
    c = body["case"]
    return True if c["kind"] not in ("get_delta",) else not _replay_gap([(c["cone"], c["V"], [[int(round(x * x * 10 ** 6)), 10 ** 6] for x in c["expected"]], {}, {})])[1]

"""Shared machinery of C09 / C10 / C11: TLC tables of region predicates, binding of the reference
evaluator to the tables, and replay of every table row into vopy.confidence_region."""
import concurrent.futures as cf
import random

from . import refeval as R
from . import tlc
from .pool import chunks, pmap
from .tlaval import to_tla

# integer cones of the 2-D geometric specification (rows need not be unit: the code accepts any W)
CONES = {
    "orth":   {"W": [[1, 0], [0, 1]], "L": 1},
    "acute":  {"W": [[2, -1], [-1, 2]], "L": 6},
    "obtuse": {"W": [[2, 1], [1, 2]], "L": 6},
    "skew":   {"W": [[3, -1], [-1, 2]], "L": 30},
    "k3":     {"W": [[1, 0], [0, 1], [1, 1]], "L": 1},
    "k3b":    {"W": [[2, -1], [-1, 2], [1, 1]], "L": 6},
    "pyobt":  {"W": [[3, 4], [4, 3]], "L": 0},
    "pyac":   {"W": [[-3, 4], [4, -3]], "L": 0},
}
QUICK_CONES = ["orth", "acute", "obtuse", "k3", "pyobt"]
ALL_CONES = list(CONES)
SLACKS_Q = [[0, 0], [1, 1], [1, 0]]
SLACKS_T = [[0, 0], [1, 1], [1, 0], [0, 2], [2, 1]]

INVS = {"dom": ["DomThm"], "cov": ["CovThm", "CovMono"], "pdom": ["PDomThm", "PProcSound", "PProcCompl"]}


def _mc(cone, slacks):
    c = CONES[cone]
    return ("---- MODULE MCGeomTable ----\nEXTENDS GeomTable\n"
            "TheCones == { [W |-> %s, L |-> %d] }\nTheSlacks == %s\n====\n"
            % (to_tla(c["W"]), c["L"], "{" + ", ".join(to_tla(s) for s in slacks) + "}"))


def _cfg(G, part):
    inv = "\n".join("INVARIANT " + i for i in INVS[part])
    return 'CONSTANTS\n G = %d\n Cones <- TheCones\n Slacks <- TheSlacks\n Part = "%s"\nINIT Init\nNEXT Next\n%s\n' % (G, part, inv)


def table(ctx, part, cones, G, slacks, timeout=1500):
    """Run one TLC per cone (in parallel; init-state enumeration is single threaded) and return rows."""
    rows = []

    def one(cone):
        return cone, tlc.dump_states("MCGeomTable", _cfg(G, part), files={"MCGeomTable.tla": _mc(cone, slacks)},
                                     workers=2, timeout=timeout)

    with cf.ThreadPoolExecutor(max_workers=8) as ex:
        for cone, (res, states) in ex.map(one, cones):
            ctx.add_tlc(res, "GeomTable/%s/%s/G=%d" % (part, cone, G))
            if res.violated:
                # a theorem of the SPEC failed: that is a defect of the machinery, never of the code
                raise tlc.MachineryError("spec theorem %s fails for cone %s: %s" % (res.violated, cone, res.trace[:1]))
            tlc.must_pass(res, "GeomTable %s %s" % (part, cone))
            expected = (len(_boxes(G)) ** 2) * len(slacks)
            if len(states) != expected or res.distinct != expected:
                raise tlc.MachineryError("table %s/%s: %d rows, expected %d" % (part, cone, len(states), expected))
            for st in states:
                rows.append(_row(cone, st))
    return rows


def _boxes(G):
    return [((a, b), (c, d)) for a in range(G + 1) for b in range(G + 1) for c in range(a, G + 1) for d in range(b, G + 1)]


def _row(cone, st):
    c, a = st["cfg"], st["ans"]
    return {"cone": cone, "r1": (tuple(c["r1"]["lo"]), tuple(c["r1"]["hi"])), "r2": (tuple(c["r2"]["lo"]), tuple(c["r2"]["hi"])),
            "s": tuple(c["s"]), "ans": {k: (list(v) if isinstance(v, tuple) else v) for k, v in a.items()}}


def bind_refeval(ctx, part, rows):
    """The Python reference evaluator must agree with TLC on every row (exact arithmetic)."""
    bad = 0
    for r in rows:
        W = CONES[r["cone"]]["W"]
        a = r["ans"]
        if part == "dom":
            ok = R.dom_box(W, r["r1"], r["r2"], r["s"]) == a["dom"][1]
        elif part == "cov":
            ok = [R.cov_box(W, r["r1"], r["r2"], r["s"], dt) for dt in (-1, 0, 1)] == a["cov"]
        else:
            ok = ([R.pdom_box(W, r["r1"], r["r2"], dt) for dt in (-1, 0, 1)] == a["pdom"]
                  and R.pdom_proc(W, r["r1"], r["r2"]) == a["pproc"])
        if not ok:
            bad += 1
            if bad < 3:
                print("refeval disagrees with TLC on", r)
    ctx.extra["refeval_bound_rows_" + part] = len(rows)
    if bad:
        raise tlc.MachineryError("reference evaluator disagrees with the TLC table on %d rows (%s)" % (bad, part))


# ------------------------------------------------------------------ replay into the code
_ORDERS = {}


def order_for(cone, dtype=float):
    """the order of a table cone; dtype=int: the same matrix as the user would type it (whole numbers, integer dtype)"""
    import numpy as np
    from vopy.order import PolyhedralConeOrder
    from vopy.ordering_cone import OrderingCone
    key = cone if dtype is float else (cone, "int")
    if key not in _ORDERS:
        _ORDERS[key] = PolyhedralConeOrder(OrderingCone(np.array(CONES[cone]["W"], dtype=dtype)))
    return _ORDERS[key]


# (scale, common translation): the predicates are invariant under a common translation of both regions, and
# tiny regions far from the origin are what a run displays late (objective values ~100, widths ~1e-3)
DYADIC = [(1.0, 0.0), (2.0 ** -13, 0.0), (2.0 ** 7, 0.0), (2.0 ** -10, 64.0), (1.0, -1024.0)]
DECIMAL = [(1e-4, 0.0), (1e2, 0.0), (0.3, 0.0), (1e-3, 100.0), (1e-4, -7.5)]


def _rect(b, k):
    import numpy as np
    from vopy.confidence_region import RectangularConfidenceRegion
    k, off = k
    return RectangularConfidenceRegion(2, np.array(b[0], dtype=float) * k + off, np.array(b[1], dtype=float) * k + off)


def _slack_forms(s, k):
    import numpy as np
    k = k[0]
    forms = [("vector", np.array(s, dtype=float) * k)]
    if s[0] == s[1]:
        forms.append(("scalar", float(s[0]) * k))
        forms.append(("array0d", np.array(float(s[0]) * k)))
    return forms


def replay_rows(args):
    """worker: (part, rows, scales_for_all, extra_scales_every) -> (n_calls, mismatches)"""
    part, rows, seed = args
    import warnings
    warnings.filterwarnings("ignore")
    from vopy.confidence_region import (confidence_region_check_dominates, confidence_region_is_covered,
                                        confidence_region_is_dominated)
    rnd = random.Random(seed)
    calls = 0
    bad = []
    for r in rows:
        order = order_for(r["cone"])
        a = r["ans"]
        K = len(CONES[r["cone"]]["W"])
        scales = [(1.0, 0.0)]
        if r.get("allscales"):
            scales = DYADIC + DECIMAL
        for k in scales:
            R1, R2 = _rect(r["r1"], k), _rect(r["r2"], k)
            dy = k in DYADIC
            if part == "dom":
                lo, mid, hi = a["dom"]
                for form, sl in _slack_forms(r["s"], k):
                    got = bool(confidence_region_is_dominated(order, R1, R2, sl))
                    calls += 1
                    if dy:
                        exp = mid  # exactly representable data: the boundary counts as dominated
                    elif lo == hi:
                        exp = mid
                    else:
                        continue
                    if got != exp:
                        bad.append({"kind": "rect-dom", "row": r, "scale": k, "slack_form": form, "expected": exp, "got": got})
                    if k == DYADIC[1] or k == DECIMAL[2]:
                        # the same cone typed with whole numbers (integer dtype matrix), regions with fractional coordinates
                        got_i = bool(confidence_region_is_dominated(order_for(r["cone"], int), R1, R2, sl))
                        calls += 1
                        if got_i != exp:
                            bad.append({"kind": "rect-dom-intW", "row": r, "scale": k, "slack_form": form, "expected": exp, "got": got_i})
            elif part == "cov":
                lo, mid, hi = a["cov"]
                if lo != hi:
                    continue  # boundary: not compared (solver tolerance)
                for form, sl in _slack_forms(r["s"], k):
                    got = bool(confidence_region_is_covered(order, R1, R2, sl))
                    calls += 1
                    if got != mid:
                        bad.append({"kind": "rect-cov", "row": r, "scale": k, "slack_form": form, "expected": mid, "got": got})
            else:
                relaxed, mid, strict = a["pdom"]
                got = bool(confidence_region_check_dominates(order, R1, R2))
                calls += 1
                if got and not relaxed:
                    bad.append({"kind": "rect-pdom-unsound", "row": r, "scale": k, "expected": False, "got": True})
                if K == 2 and strict and not got:
                    bad.append({"kind": "rect-pdom-incomplete", "row": r, "scale": k, "expected": True, "got": False})
                if dy and relaxed == strict and got != a["pproc"]:
                    # robust configuration, exact data: the code is the procedure of the spec
                    bad.append({"kind": "rect-pdom-proc", "row": r, "scale": k, "expected": a["pproc"], "got": got})
                if k == DYADIC[1] and relaxed == strict:
                    got_i = bool(confidence_region_check_dominates(order_for(r["cone"], int), R1, R2))
                    calls += 1
                    if got_i != a["pproc"]:
                        bad.append({"kind": "rect-pdom-intW", "row": r, "scale": k, "expected": a["pproc"], "got": got_i})
    return calls, bad


def _guarded(job):
    """an exception raised by the code under test while a table row is replayed is a violation of that row, not a machinery error"""
    fname, (part, rows, seed) = job
    fn = globals()[fname]
    try:
        return fn((part, rows, seed))
    except Exception:
        pass
    calls, bad = 0, []
    for r in rows:
        try:
            c, b = fn((part, [r], seed))
            calls += c
            bad += b
        except Exception as e:
            row = r if not isinstance(r, dict) else {k: v for k, v in r.items() if k != "ans"}
            bad.append({"kind": "exception-" + part, "row": row if isinstance(row, dict) else {"cone": "?", "row": repr(row)[:300]}, "scale": "-", "expected": "an answer", "got": repr(e)[:200]})
    return calls, bad


def replay(ctx, part, rows, seed, every):
    """mark every `every`-th row for all scales, then fan out."""
    rnd = random.Random(seed)
    rows = list(rows)
    rnd.shuffle(rows)
    for i, r in enumerate(rows):
        r["allscales"] = (i % every == 0)
    jobs = [(part, ch, seed + i) for i, ch in enumerate(chunks(rows, 64))]
    out = pmap(_guarded, [("replay_rows", j) for j in jobs])
    calls = sum(c for c, _ in out)
    bad = [b for _, bs in out for b in bs]
    return calls, bad


# ------------------------------------------------------------------ m = 3, orthant
CONES3 = {"acute3d": [[1, -2, 4], [4, 1, -2], [-2, 4, 1]], "obtuse3d": [[5, 2, 8], [8, 5, 2], [2, 8, 5]], "k4": [[1, 0, 0], [0, 1, 0], [0, 0, 1], [1, 1, -1]],
          "skew3d": [[2, 0, 0], [0, 2, 0], [-1, -1, 2]], "wedge3d": [[1, 0, 0], [0, 1, -1], [0, -1, 2], [1, 1, 0]]}


def table3c(ctx, G=1, slacks=((0, 0, 0), (1, 1, 1), (1, 0, 1))):
    """general 3-D integer cones, is_dominated only"""
    mc = ("---- MODULE MCGeomTable3 ----\nEXTENDS GeomTable3\nTheSlacks == {%s}\nTheCones3 == {%s}\n====\n"
          % (", ".join(to_tla(list(s)) for s in slacks), ", ".join(to_tla(W) for W in CONES3.values())))
    cfg = "CONSTANTS\n G = %d\n Slacks <- TheSlacks\n Cones3 <- TheCones3\nINIT InitC\nNEXT Next\nINVARIANT DomThmC\n" % G
    res, states = tlc.dump_states("MCGeomTable3", cfg, files={"MCGeomTable3.tla": mc}, workers=4, timeout=1500)
    ctx.add_tlc(res, "GeomTable3/cones3/G=%d" % G)
    if res.violated:
        raise tlc.MachineryError("spec theorem %s fails in GeomTable3 (3-D cones)" % res.violated)
    tlc.must_pass(res, "GeomTable3 cones3")
    inv = {str(v): k for k, v in CONES3.items()}
    rows = []
    for st in states:
        c, a = st["cfg"], st["ans"]
        rows.append({"cone": inv[str([list(r) for r in c["W"]])], "r1": (tuple(c["r1"]["lo"]), tuple(c["r1"]["hi"])),
                     "r2": (tuple(c["r2"]["lo"]), tuple(c["r2"]["hi"])), "s": tuple(c["s"]),
                     "ans": {k: (list(v) if isinstance(v, tuple) else v) for k, v in a.items()}})
    return rows


def table3(ctx, G=1, slacks=((0, 0, 0), (1, 1, 1), (1, 0, 1))):
    mc = ("---- MODULE MCGeomTable3 ----\nEXTENDS GeomTable3\nTheSlacks == {%s}\nTheCones3 == {}\n====\n" % ", ".join(to_tla(list(s)) for s in slacks))
    cfg = "CONSTANTS\n G = %d\n Slacks <- TheSlacks\n Cones3 <- TheCones3\nINIT Init\nNEXT Next\nINVARIANT DomThm\nINVARIANT CovThm\nINVARIANT PDomThm\n" % G
    res, states = tlc.dump_states("MCGeomTable3", cfg, files={"MCGeomTable3.tla": mc}, workers=4, timeout=900)
    ctx.add_tlc(res, "GeomTable3/G=%d" % G)
    if res.violated:
        raise tlc.MachineryError("spec theorem %s fails in GeomTable3" % res.violated)
    tlc.must_pass(res, "GeomTable3")
    rows = []
    for st in states:
        c, a = st["cfg"], st["ans"]
        rows.append({"cone": "orth3", "r1": (tuple(c["r1"]["lo"]), tuple(c["r1"]["hi"])),
                     "r2": (tuple(c["r2"]["lo"]), tuple(c["r2"]["hi"])), "s": tuple(c["s"]),
                     "ans": {k: (list(v) if isinstance(v, tuple) else v) for k, v in a.items()}})
    return rows


def replay_rows3(args):
    part, rows, seed = args
    import warnings
    warnings.filterwarnings("ignore")
    import numpy as np
    from vopy.confidence_region import (RectangularConfidenceRegion, confidence_region_check_dominates,
                                        confidence_region_is_covered, confidence_region_is_dominated)
    from vopy.order import ComponentwiseOrder, PolyhedralConeOrder
    from vopy.ordering_cone import OrderingCone
    orders3 = {"orth3": ComponentwiseOrder(3)}
    calls, bad = 0, []
    for r in rows:
        if r["cone"] not in orders3:
            orders3[r["cone"]] = PolyhedralConeOrder(OrderingCone(np.array(CONES3[r["cone"]], dtype=float)))
        order = orders3[r["cone"]]
        for k in ([1.0, 2.0 ** -13, 0.3] if r.get("allscales") else [1.0]):
            R1 = RectangularConfidenceRegion(3, np.array(r["r1"][0], float) * k, np.array(r["r1"][1], float) * k)
            R2 = RectangularConfidenceRegion(3, np.array(r["r2"][0], float) * k, np.array(r["r2"][1], float) * k)
            sl = np.array(r["s"], float) * k
            lo, mid, hi = r["ans"][part]
            dy = k != 0.3
            if part == "dom":
                got = bool(confidence_region_is_dominated(order, R1, R2, sl))
                if dy or lo == hi:
                    if got != mid:
                        bad.append({"kind": "rect3-dom", "row": r, "scale": k, "expected": mid, "got": got})
            elif part == "cov":
                if lo != hi:
                    continue
                got = bool(confidence_region_is_covered(order, R1, R2, sl))
                if got != mid:
                    bad.append({"kind": "rect3-cov", "row": r, "scale": k, "expected": mid, "got": got})
            else:
                got = bool(confidence_region_check_dominates(order, R1, R2))
                if got and not lo:
                    bad.append({"kind": "rect3-pdom-unsound", "row": r, "scale": k, "expected": False, "got": True})
            calls += 1
    return calls, bad


def replay3(ctx, part, rows, seed, every):
    rnd = random.Random(seed)
    rows = list(rows)
    rnd.shuffle(rows)
    for i, r in enumerate(rows):
        r["allscales"] = (i % every == 0)
    out = pmap(_guarded, [("replay_rows3", (part, ch, seed + i)) for i, ch in enumerate(chunks(rows, 32))])
    return sum(c for c, _ in out), [b for _, bs in out for b in bs]


# ------------------------------------------------------------------ ellipsoids / balls
I2 = [[1, 0], [0, 1]]
# correlated shapes with UNEQUAL diagonals: an ellipse with equal diagonal entries is its own mirror image in the diagonal, so a
# transposed / mirrored shape factor would go unnoticed on it
SHAPES_Q = [{"S": I2, "a": 1}, {"S": I2, "a": 2}, {"S": [[1, 0], [0, 4]], "a": 1}, {"S": [[5, 2], [2, 1]], "a": 1},
            {"S": [[2, -1], [-1, 1]], "a": 2}]
SHAPES_T = SHAPES_Q + [{"S": [[4, 0], [0, 1]], "a": 1}, {"S": [[1, 0], [0, 1]], "a": 3}, {"S": [[2, 1], [1, 2]], "a": 1}, {"S": [[1, -2], [-2, 6]], "a": 1}]
ELL_SLACKS = [[0], [2], [1, 3]]


def elltable(ctx, cones, shapes, G=5, c1s=((1, 1),), slacks=ELL_SLACKS, timeout=1500):
    rows = []

    def one(cone):
        W = CONES[cone]["W"]
        mc = ("---- MODULE MCEll ----\nEXTENDS EllTable\nTheShapes == {%s}\nTheCones == {%s}\nTheSlacks == {%s}\nTheC1 == {%s}\n====\n"
              % (", ".join("[S |-> %s, a |-> %d]" % (to_tla(s["S"]), s["a"]) for s in shapes), to_tla(W),
                 ", ".join(to_tla(s) for s in slacks), ", ".join(to_tla(list(c)) for c in c1s)))
        cfg = ("CONSTANTS\n G = %d\n C1s <- TheC1\n Shapes <- TheShapes\n Cones <- TheCones\n Slacks <- TheSlacks\n R = 5\n LamMax = 3\n"
               "INIT Init\nNEXT Next\nINVARIANT DomMono\nINVARIANT DomSound\nINVARIANT BallDomThm\nINVARIANT BallDomDef\n"
               "INVARIANT BallCovThm\nINVARIANT CovConsist\n" % G)
        return cone, tlc.dump_states("MCEll", cfg, files={"MCEll.tla": mc}, workers=2, timeout=timeout)

    with cf.ThreadPoolExecutor(max_workers=8) as ex:
        for cone, (res, states) in ex.map(one, cones):
            ctx.add_tlc(res, "EllTable/%s" % cone)
            if res.violated:
                raise tlc.MachineryError("spec theorem %s fails in EllTable for cone %s: %s" % (res.violated, cone, res.trace[:1]))
            tlc.must_pass(res, "EllTable " + cone)
            for st in states:
                c, a = st["cfg"], st["ans"]
                W = CONES[cone]["W"]
                sl = list(c["sl"])
                rows.append({"cone": cone, "c1": list(c["c1"]), "s1": {"S": [list(x) for x in c["s1"]["S"]], "a": c["s1"]["a"]},
                             "c2": list(c["c2"]), "s2": {"S": [list(x) for x in c["s2"]["S"]], "a": c["s2"]["a"]},
                             "slack": [sl[min(n, len(sl) - 1)] for n in range(len(W))], "slack_scalar": len(sl) == 1,
                             "ans": {k: (list(v) if isinstance(v, tuple) else v) for k, v in a.items()}})
    return rows


def bind_refeval_ell(ctx, rows):
    bad = 0
    for r in rows:
        W = CONES[r["cone"]]["W"]
        e1 = (r["c1"], r["s1"]["S"], r["s1"]["a"])
        e2 = (r["c2"], r["s2"]["S"], r["s2"]["a"])
        ok = [R.ell_dom(W, e1, e2, [x + t for x in r["slack"]]) for t in (1, 0, -1)] == r["ans"]["dom"]
        if r["s1"]["S"] == I2 and r["s2"]["S"] == I2:
            ok = ok and R.ball_dom(W, e1[0], e1[2], e2[0], e2[2], r["slack"]) == r["ans"]["ball"][0]
            ok = ok and R.ball_cov(W, e1[0], e1[2], e2[0], e2[2], r["slack"]) == r["ans"]["ball"][1]
        if not ok:
            bad += 1
            if bad < 3:
                print("refeval(ell) disagrees with TLC on", r)
    ctx.extra["refeval_bound_rows_ell"] = len(rows)
    if bad:
        raise tlc.MachineryError("reference evaluator disagrees with the TLC ellipsoid table on %d rows" % bad)


def replay_rows_ell(args):
    part, rows, seed = args
    import warnings
    warnings.filterwarnings("ignore")
    import numpy as np
    from vopy.confidence_region import (EllipsoidalConfidenceRegion, confidence_region_is_covered,
                                        confidence_region_is_dominated)
    calls, bad = 0, []
    for r in rows:
        order = order_for(r["cone"])
        for k in ([1.0, 1e-3, 30.0, -1e-4, -1e-3] if r.get("allscales") else [1.0]):
            # scaling the geometry by |k|: centres * k, and either alpha * k with sigma unchanged (k > 0) or sigma * k^2 with alpha
            # unchanged (k < 0: the same ellipsoid, with the smallness in the covariance - what a late GP posterior looks like)
            if k > 0:
                E1 = EllipsoidalConfidenceRegion(2, np.array(r["c1"], float) * k, np.array(r["s1"]["S"], float), r["s1"]["a"] * k)
                E2 = EllipsoidalConfidenceRegion(2, np.array(r["c2"], float) * k, np.array(r["s2"]["S"], float), r["s2"]["a"] * k)
            else:
                k = -k
                E1 = EllipsoidalConfidenceRegion(2, np.array(r["c1"], float) * k, np.array(r["s1"]["S"], float) * k * k, float(r["s1"]["a"]))
                E2 = EllipsoidalConfidenceRegion(2, np.array(r["c2"], float) * k, np.array(r["s2"]["S"], float) * k * k, float(r["s2"]["a"]))
            forms = [("vector", np.array(r["slack"], float) * k)]
            if r["slack_scalar"]:
                forms.append(("scalar", float(r["slack"][0]) * k))
            for form, sl in forms:
                if part == "dom":
                    relaxed, mid, strict = r["ans"]["dom"]
                    if relaxed != strict:
                        continue
                    got = bool(confidence_region_is_dominated(order, E1, E2, sl))
                    calls += 1
                    if got != mid:
                        bad.append({"kind": "ell-dom", "row": r, "scale": k, "slack_form": form, "expected": mid, "got": got})
                else:
                    a = r["ans"]["cov"]
                    if not (a[0] == a[1] == a[2] and a[1] in ("T", "F")):
                        continue
                    got = bool(confidence_region_is_covered(order, E1, E2, sl))
                    calls += 1
                    if got != (a[1] == "T"):
                        bad.append({"kind": "ell-cov", "row": r, "scale": k, "slack_form": form, "expected": a[1] == "T", "got": got})
    return calls, bad


def replay_ell(ctx, part, rows, seed, every):
    rnd = random.Random(seed)
    rows = list(rows)
    rnd.shuffle(rows)
    for i, r in enumerate(rows):
        r["allscales"] = (i % every == 0)
    out = pmap(_guarded, [("replay_rows_ell", (part, ch, seed + i)) for i, ch in enumerate(chunks(rows, 64))])
    return sum(c for c, _ in out), [b for _, bs in out for b in bs]


def report(ctx, bad, prop):
    """turn mismatches into violations; signature = kind + cone (+ slack form)"""
    for b in bad:
        sig = "%s|cone=%s" % (b["kind"], b["row"]["cone"])
        msg = "%s: code answered %s, specification says %s at scale %s for %s" % (
            b["kind"], b["got"], b["expected"], b["scale"], {k: v for k, v in b["row"].items() if k not in ("ans", "allscales")})
        ctx.violation(sig, b, msg)


# ------------------------------------------------------------------ 3-D general cones through the (bound) evaluator
def bind_refeval3(ctx, part, rows3):
    """the evaluator's generic-dimension LP (m = 3 path) must agree with TLC's 3-D orthant table"""
    W = [[1, 0, 0], [0, 1, 0], [0, 0, 1]]
    bad = 0
    for r in rows3:
        if r["cone"] != "orth3":
            continue
        if part == "cov":
            ok = [R.cov_box(W, r["r1"], r["r2"], r["s"], dt) for dt in (-1, 0, 1)] == r["ans"]["cov"]
        else:
            ok = [R.pdom_box(W, r["r1"], r["r2"], dt) for dt in (-1, 0, 1)] == r["ans"]["pdom"]
        bad += 0 if ok else 1
    ctx.extra["refeval_bound_rows3_" + part] = len(rows3)
    if bad:
        raise tlc.MachineryError("evaluator (3-D path) disagrees with the TLC orthant table on %d rows (%s)" % (bad, part))


def eval3d_rows(args):
    """random 3-D lattice boxes x general 3-D cones: code vs the evaluator's exact answer (robust rows only)"""
    part, seed, count = args
    import warnings
    warnings.filterwarnings("ignore")
    import numpy as np
    from vopy.confidence_region import (RectangularConfidenceRegion, confidence_region_check_dominates, confidence_region_is_covered)
    from vopy.order import PolyhedralConeOrder
    from vopy.ordering_cone import OrderingCone
    rnd = random.Random(seed)
    orders = {k: PolyhedralConeOrder(OrderingCone(np.array(W, dtype=float))) for k, W in CONES3.items()}
    calls, bad = 0, []
    for _ in range(count):
        cone = rnd.choice(list(CONES3))
        W = CONES3[cone]

        def box():
            lo = [rnd.randint(0, 3) for _ in range(3)]
            return (tuple(lo), tuple(l + rnd.choice([0, 0, 1, 2]) for l in lo))       # degenerate edges and shared coordinates are frequent
        b1, b2 = box(), box()
        s = rnd.choice([(0, 0, 0), (1, 1, 1), (1, 0, 2)])
        k = rnd.choice([1.0, 0.125, 1e-2, 30.0])
        R1 = RectangularConfidenceRegion(3, np.array(b1[0], float) * k, np.array(b1[1], float) * k)
        R2 = RectangularConfidenceRegion(3, np.array(b2[0], float) * k, np.array(b2[1], float) * k)
        if part == "cov":
            tri = [R.cov_box(W, b1, b2, s, dt) for dt in (-1, 0, 1)]
            if tri[0] != tri[2]:
                continue
            try:
                got = bool(confidence_region_is_covered(orders[cone], R1, R2, np.array(s, float) * k))
            except Exception as e:
                got = "raised " + repr(e)[:160]
            calls += 1
            if got != tri[1]:
                bad.append({"kind": "rect3d-cov", "row": {"cone": cone, "r1": b1, "r2": b2, "s": s}, "scale": k, "expected": tri[1], "got": got})
        else:
            tri = [R.pdom_box(W, b1, b2, dt) for dt in (-1, 0, 1)]
            try:
                got = bool(confidence_region_check_dominates(orders[cone], R1, R2))
            except Exception as e:
                bad.append({"kind": "rect3d-pdom-exception", "row": {"cone": cone, "r1": b1, "r2": b2, "s": s}, "scale": k, "expected": "an answer", "got": "raised " + repr(e)[:160]})
                got = False
            calls += 1
            if got and not tri[0]:
                bad.append({"kind": "rect3d-pdom-unsound", "row": {"cone": cone, "r1": b1, "r2": b2, "s": s}, "scale": k, "expected": False, "got": True})
    return calls, bad


def eval3d(ctx, part, seed, total):
    out = pmap(eval3d_rows, [(part, seed * 100 + i, total // 16) for i in range(16)])
    return sum(c for c, _ in out), [b for _, bs in out for b in bs]

"""Running TLC and reading what it prints.  Every call is under a timeout and in a private scratch dir."""
import glob
import os
import re
import shutil
import subprocess
import tempfile
import time

from . import tlaval

SPEC_DIR = os.path.join(os.path.dirname(os.path.dirname(os.path.abspath(__file__))), "spec")
JAR = "/opt/veriftools/tla/tla2tools.jar:/opt/veriftools/tla/CommunityModules-deps.jar"
SCRATCH_ROOT = os.environ.get("VERIF_SCRATCH", "/var/tmp")


class MachineryError(Exception):
    """TLC failed for a reason that is not a property violation (parse error, timeout, ...)."""


class TLCResult:
    def __init__(self):
        self.stdout = ""
        self.generated = 0
        self.distinct = 0
        self.ok = False  # "No error has been found"
        self.violated = None  # name of violated invariant / property
        self.error = None  # other error text
        self.wall = 0.0
        self.coverage = {}  # action -> (distinct, taken)
        self.trace = []  # counterexample states (list of dict) when violated
        self.prints = []  # parsed PrintT values


def scratch(prefix="vv-"):
    os.makedirs(SCRATCH_ROOT, exist_ok=True)
    return tempfile.mkdtemp(prefix=prefix, dir=SCRATCH_ROOT)


def _stage(d, files):
    for f in glob.glob(os.path.join(SPEC_DIR, "*.tla")):
        shutil.copy(f, d)
    for name, text in (files or {}).items():
        with open(os.path.join(d, name), "w") as fh:
            fh.write(text)


_num = re.compile(r"(\d+) states generated, (\d+) distinct states found")
_numsim = re.compile(r"The number of states generated: (\d+)")
_cov = re.compile(r"^<(\w+) line \d+, col \d+ to line \d+, col \d+ of module (\w+)>: (\d+):(\d+)", re.M)


def _split_prints(out):
    """PrintT lines can wrap; collect top-level <<...>> values that start a line."""
    vals = []
    buf = None
    depth = 0
    for line in out.split("\n"):
        if buf is None:
            if line.startswith("<<"):
                buf = ""
                depth = 0
            else:
                continue
        buf += line + "\n"
        depth += line.count("<<") - line.count(">>")
        if depth <= 0:
            try:
                vals.append(tlaval.parse_value(buf))
            except tlaval.ParseError:
                pass
            buf = None
    return vals


def _parse_trace(out):
    states = []
    for m in re.finditer(r"(?ms)^State \d+: <[^\n]*>\n(.*?)(?=^\s*$)", out):
        try:
            states.append(tlaval.parse_state(m.group(1)))
        except tlaval.ParseError:
            pass
    return states


def run(module, cfg, files=None, workers=16, timeout=900, env=None, args=(), keep=None, coverage=False,
        java_opts=None, heap=None):
    """see _run_once; a run that ends in an ERROR that is neither a property violation nor a clean pass is retried once
    (JVM start-up / memory hiccups on a loaded machine must not turn into verdicts)."""
    res = _run_once(module, cfg, files, workers, timeout, env, args, keep, coverage, java_opts, heap)
    if res.error and not res.violated and not res.ok and "-simulate" not in " ".join(args):
        time.sleep(2)
        res = _run_once(module, cfg, files, workers, timeout, env, args, keep, coverage, java_opts, heap)
    return res


def _run_once(module, cfg, files=None, workers=16, timeout=900, env=None, args=(), keep=None, coverage=False,
              java_opts=None, heap=None):
    """Run TLC on `module` (a module in spec/ or provided in files) with cfg text. Returns TLCResult.

    files: extra {filename: text} written beside the spec (MC modules, data).
    keep:  callable(dir) invoked before the scratch dir is deleted (to harvest dumps / sim files).
    """
    d = scratch()
    res = TLCResult()
    try:
        _stage(d, files)
        os.makedirs(os.path.join(d, "sim"), exist_ok=True)
        with open(os.path.join(d, module + ".cfg"), "w") as fh:
            fh.write(cfg)
        cmd = ["java", "-XX:+UseParallelGC", "-XX:ParallelGCThreads=4"]
        cmd.append("-Xmx" + (heap or "6g"))
        for o in java_opts or ():
            cmd.append(o)
        cmd += ["-cp", JAR, "tlc2.TLC", "-workers", str(workers), "-metadir", os.path.join(d, "meta"),
                "-noGenerateSpecTE", "-config", module + ".cfg"]
        if coverage:
            cmd += ["-coverage", "1"]
        cmd += list(args) + [module + ".tla"]
        e = dict(os.environ)
        e.update(env or {})
        t0 = time.time()
        try:
            p = subprocess.run(cmd, cwd=d, env=e, capture_output=True, text=True, timeout=timeout)
        except subprocess.TimeoutExpired as ex:
            subprocess.run(["pkill", "-f", d], capture_output=True)
            raise MachineryError("TLC timeout after %ss on %s" % (timeout, module)) from ex
        res.wall = time.time() - t0
        out = p.stdout + ("\n" + p.stderr if p.stderr else "")
        res.stdout = out
        m = None
        for m in _num.finditer(out):
            pass
        if m:
            res.generated, res.distinct = int(m.group(1)), int(m.group(2))
        else:
            m = _numsim.search(out)
            if m:
                res.generated = int(m.group(1))
        res.ok = "No error has been found" in out
        m = re.search(r"Error: Invariant (\w+) is violated", out)
        if m:
            res.violated = m.group(1)
        m2 = re.search(r"Error: Action property (\w+) is violated", out)
        if m2:
            res.violated = m2.group(1)
        if "is violated" in out and not res.violated:
            m3 = re.search(r"Error: (.*is violated.*)", out)
            res.violated = m3.group(1) if m3 else "unknown"
        if res.violated:
            res.trace = _parse_trace(out)
        if not res.ok and not res.violated:
            em = re.search(r"(?s)Error: (.*?)(?:\n\n|\Z)", out)
            res.error = em.group(1)[:2000] if em else out[-2000:]
        for cm in _cov.finditer(out):
            res.coverage[cm.group(1)] = (int(cm.group(3)), int(cm.group(4)))
        res.prints = _split_prints(out)
        if keep:
            keep(d)
        return res
    finally:
        shutil.rmtree(d, ignore_errors=True)


def must_pass(res, what):
    if res.violated or not res.ok:
        raise MachineryError("%s: TLC did not pass cleanly: violated=%s error=%s" % (what, res.violated, res.error))


def read_dump(path):
    """Parse a `-dump file` output: yields dict per state."""
    with open(path) as fh:
        text = fh.read()
    blocks = [b.strip() for b in re.split(r"(?m)^State \d+:\s*$", text) if b.strip()]
    for k, blk in enumerate(blocks):
        try:
            yield tlaval.parse_state(blk)
        except (tlaval.ParseError, IndexError):
            if k == len(blocks) - 1:
                return          # truncated last block: TLC did not finish - the caller sees that from the result
            raise


def dump_states(module, cfg, files=None, workers=16, timeout=900, env=None):
    """Run TLC with -dump and return (TLCResult, [states])."""
    states = []

    def keep(d):
        p = os.path.join(d, "dump.dump")
        if os.path.exists(p):
            states.extend(read_dump(p))

    res = run(module, cfg, files=files, workers=workers, timeout=timeout, env=env, args=["-dump", "dump"], keep=keep)
    return res, states


_simstate = re.compile(r"(?ms)^\\\* <(\w+)[^\n]*>\nSTATE_(\d+) ==\s*\n(.*?)(?=^\s*$)")


def simulate(module, cfg, num, depth, seed, files=None, timeout=900, env=None):
    """tlc -simulate: returns (TLCResult, behaviours) ; behaviour = list of (action, state dict)."""
    behs = []

    def keep(d):
        for f in sorted(glob.glob(os.path.join(d, "sim", "tr_*"))):
            with open(f) as fh:
                text = fh.read()
            b = []
            for m in _simstate.finditer(text):
                b.append((m.group(1), tlaval.parse_state(m.group(3))))
            if b:
                behs.append(b)

    d_args = ["-simulate", "file=sim/tr,num=%d" % num, "-depth", str(depth), "-seed", str(seed)]

    res = run(module, cfg, files=files, workers=1, timeout=timeout, env=env, args=d_args, keep=keep,
              java_opts=None)
    return res, behs

"""C20 - problems return the nearest design's value plus the configured noise; data are scaled as declared.

leg 1: TLC computes and proves on integer lattices (spec/VOProblem.tla, ProblemTable.tla): the nearest design with ties to the first
       index; the noise vector z . L^T of an evaluation for an explicit standard-normal draw z and Cholesky factor L (covariance L L^T);
       min-max scaling and standardisation as exact rationals (range, extremes attained, zero mean, unit variance); normalise and
       unnormalise are mutual inverses.
leg 2: the dumped tables are replayed into get_closest_indices_from_points, ProblemFromDataset.evaluate (single point and batch,
       noiseless exact; noisy with numpy.random.normal intercepted to return the table's integer draws), get_noisy_evaluations_chol
       and ContinuousProblem with correlated factors, DecoupledEvaluationProblem (None / int / list), Dataset scaling, normalize /
       unnormalize; every evaluate() call is also checked for leaving the caller's array bit-identical (incl. BraninCurrin).
aux  : bundled datasets: declared sizes, inputs in [0,1] with both ends attained, objectives zero mean / unit variance (observation,
       not decided by the specification).
"""
import math
import random
from fractions import Fraction as Fr
from unittest import mock

from . import tlc
from .pool import chunks, pmap
from .tlaval import seq, to_tla

CFG = ('CONSTANTS\n Part = "%s"\n Designs <- TheDesigns\n Q = 8\n QOut = 5\n Draws <- TheDraws\n Chols <- TheChols\n Cols <- TheCols\n'
       'INIT Init\nNEXT Next\nINVARIANT NearestThm\nINVARIANT ScaleThm\nINVARIANT InverseThm\n')
CHOLS = [[[2, 0], [0, 2]], [[1, 0], [2, 3]], [[3, 0], [-1, 1]], [[1, 0], [0, 4]]]


def _designs(seed, count):
    rnd = random.Random(seed)
    out = []
    while len(out) < count:
        n = rnd.choice([3, 4, 5])
        X = [[rnd.choice([0, 4, 8]), rnd.choice([0, 4, 8])] for _ in range(n)]
        if all({0, 8} <= {x[k] for x in X} for k in range(2)) and X not in out:
            out.append(X)
    return out


def _mc(designs, ncols):
    cols = "UNION { [1..n -> 0..3] : n \\in 3..%d }" % ncols
    return ("---- MODULE MCProb ----\nEXTENDS ProblemTable\nTheDesigns == {%s}\nTheDraws == {-2, 0, 1, 3}\nTheChols == {%s}\nTheCols == %s\n====\n"
            % (", ".join(to_tla(d) for d in designs), ", ".join(to_tla(c) for c in CHOLS), cols))


def _replay_nearest(rows):
    import warnings
    warnings.filterwarnings("ignore")
    import numpy as np
    from vopy.maximization_problem import DecoupledEvaluationProblem, ProblemFromDataset
    from vopy.utils import get_closest_indices_from_points
    from . import algotrace as AT
    bad = []
    n = 0
    byX = {}
    for X, q, ans in rows:
        byX.setdefault(str(X), (X, []))[1].append((q, ans))
    for key, (X, qs) in byX.items():
      try:
          Xs = np.array(X, dtype=float) / 8.0          # what the dataset exposes after min-max scaling (columns span 0..8 -> 0..1)
          rs = np.random.RandomState(len(X))
          Y = rs.randn(len(X), 2)
          cls = AT.register_dataset("VVP%d" % abs(hash(key) % 10 ** 6), np.array(X, dtype=float), Y)   # raw inputs 0/4/8: min-max scaling is the exact division by 8
          ds = cls()
          if not np.array_equal(ds.in_data, Xs):
              bad.append({"kind": "dataset-minmax", "X": X, "got": ds.in_data.tolist()})
              continue
          prob = ProblemFromDataset(ds, 0.25)
          dec = DecoupledEvaluationProblem(prob)
          Q = np.array([q for q, _ in qs], dtype=float) / 8.0
          exp = np.array([a - 1 for _, a in qs])
          for sq in (False, True):
              got = np.asarray(get_closest_indices_from_points(Q, ds.in_data, squared=sq))
              n += 1
              if not np.array_equal(got, exp):
                  k = int(np.where(got != exp)[0][0])
                  bad.append({"kind": "nearest", "X": X, "q": qs[k][0], "expected": int(exp[k]), "got": int(got[k]), "squared": sq})
          gi, gd = get_closest_indices_from_points(Q, ds.in_data, return_distances=True, squared=True)
          if not np.array_equal(gi, exp) or not np.allclose(gd, ((Q - ds.in_data[exp]) ** 2).sum(axis=1), atol=1e-12):
              bad.append({"kind": "nearest-distances", "X": X})
          Q0 = Q.copy()
          f = prob.evaluate(Q, noisy=False)
          n += 1
          if not (np.array_equal(f, ds.out_data[exp]) and np.array_equal(Q, Q0) and f.shape == (len(Q), 2)):
              bad.append({"kind": "evaluate-noiseless-batch", "X": X, "input_unchanged": bool(np.array_equal(Q, Q0))})
          for k in range(0, len(Q), 7):
              q1 = Q[k].copy()
              f1 = prob.evaluate(q1, noisy=False)       # a single point given as a 1-D array
              if not (np.array_equal(np.asarray(f1).reshape(-1), ds.out_data[exp[k]]) and np.array_equal(q1, Q[k])):
                  bad.append({"kind": "evaluate-noiseless-single", "X": X, "q": qs[k][0]})
          # noisy: y = f + z . L^T with L = sqrt(noise_var) I ; draws intercepted
          Z = rs.randint(-2, 4, size=(len(Q), 2)).astype(float)
          with mock.patch("numpy.random.normal", return_value=Z.copy()):
              y = prob.evaluate(Q, noisy=True)
          n += 1
          if not (np.allclose(y, ds.out_data[exp] + 0.5 * Z, atol=1e-12) and np.array_equal(Q, Q0)):
              bad.append({"kind": "evaluate-noisy", "X": X, "expected_noise_first": (0.5 * Z[0]).tolist(), "got_noise_first": (y[0] - ds.out_data[exp][0]).tolist()})
          # other configured noise levels, incl. one far below any "reasonable" floor: y - f = sqrt(noise_var) z exactly as configured
          for nv in (1e-8, 4.0):
              pr = ProblemFromDataset(ds, nv)
              with mock.patch("numpy.random.normal", return_value=Z.copy()):
                  yv = pr.evaluate(Q, noisy=True)
              n += 1
              if not np.allclose(yv - ds.out_data[exp], np.sqrt(nv) * Z, rtol=1e-9, atol=0):
                  bad.append({"kind": "evaluate-noisy-level", "X": X, "noise_var": nv, "expected_noise_first": (np.sqrt(nv) * Z[0]).tolist(),
                              "got_noise_first": (yv[0] - ds.out_data[exp][0]).tolist()})
          # the same point queried several times in one batch: every row gets its own draw
          rep = [0, 1, 0, 2, 0]
          Qd = Q[rep].copy()
          Zd = np.array([[1.0, -2.0], [0.0, 3.0], [-2.0, 1.0], [3.0, 0.0], [1.0, 1.0]])
          with mock.patch("numpy.random.normal", return_value=Zd.copy()):
              yd = prob.evaluate(Qd, noisy=True)
          n += 1
          if not np.allclose(yd, ds.out_data[exp[rep]] + 0.5 * Zd, atol=1e-12):
              bad.append({"kind": "evaluate-noisy-repeated-rows", "X": X, "got_noise": (yd - ds.out_data[exp[rep]]).tolist(), "expected_noise": (0.5 * Zd).tolist()})
          # decoupled forms
          v = ds.out_data[exp]
          ks = [int(i % 2) for i in range(len(Q))]
          okd = (np.array_equal(dec.evaluate(Q, None, noisy=False), v) and np.array_equal(dec.evaluate(Q, 1, noisy=False), v[:, 1])
                 and np.array_equal(dec.evaluate(Q, ks, noisy=False), v[np.arange(len(Q)), ks])
                 and np.array_equal(dec.evaluate(Q, np.array(ks), noisy=False), v[np.arange(len(Q)), ks]) and np.array_equal(Q, Q0))
          n += 4
          if not okd:
              bad.append({"kind": "decoupled", "X": X})
          # end-relative (negative) objective indices select the same components as numpy does on the full evaluation
          kn = [-1 if i % 2 else -2 for i in range(len(Q))]
          km = [(-1, 0, 1, -2)[i % 4] for i in range(len(Q))]
          okn = (np.array_equal(dec.evaluate(Q, kn, noisy=False), v[np.arange(len(Q)), kn]) and np.array_equal(dec.evaluate(Q, km, noisy=False), v[np.arange(len(Q)), km])
                 and np.array_equal(dec.evaluate(Q, -1, noisy=False), v[:, -1]))
          n += 3
          if not okn:
              bad.append({"kind": "decoupled-negative-index", "X": X})
          try:
              dec.evaluate(Q, ks[:-1], noisy=False)
              bad.append({"kind": "decoupled-length-accepted", "X": X})
          except ValueError:
              pass
      except Exception as e:      # the code under test raised where the specification has a defined answer
        bad.append({"kind": "exception", "X": X, "error": repr(e)[:300]})
    return n, bad


def _replay_noise(rows):
    import warnings
    warnings.filterwarnings("ignore")
    import numpy as np
    from vopy.maximization_problem import ContinuousProblem
    from vopy.utils import get_noisy_evaluations_chol
    bad = []
    n = 0

    class Lin(ContinuousProblem):
        in_dim = 2
        out_dim = 2
        bounds = [(0.0, 1.0), (0.0, 1.0)]

        def __init__(self):
            super().__init__(0.25)

        def evaluate_true(self, x):
            return np.stack([x[:, 0] + 2 * x[:, 1], x[:, 0] - x[:, 1]], axis=1)

    for z, L, ans in rows:
        means = np.array([[1.0, -2.0]])
        with mock.patch("numpy.random.normal", return_value=np.array([z], dtype=float)):
            y = get_noisy_evaluations_chol(means, np.array(L, dtype=float))
        n += 1
        if not np.allclose(y - means, np.array([ans], dtype=float), atol=1e-12):
            bad.append({"kind": "noise-chol", "z": list(z), "L": L, "expected": list(ans), "got": (y - means)[0].tolist(),
                        "diagonal_factor": L[1][0] == 0})
        p = Lin()
        p.noise_cholesky = np.array(L, dtype=float)
        x = np.array([[0.25, 0.5]])
        x0 = x.copy()
        with mock.patch("numpy.random.normal", return_value=np.array([z], dtype=float)):
            y2 = p.evaluate(x, noisy=True)
        f = p.evaluate(x, noisy=False)
        if not (np.allclose(y2 - f, np.array([ans], dtype=float), atol=1e-12) and np.array_equal(x, x0)):
            bad.append({"kind": "continuous-noise", "z": list(z), "L": L, "expected": list(ans), "got": (y2 - f)[0].tolist(),
                        "diagonal_factor": L[1][0] == 0})
    return n, bad


def _replay_scale(rows):
    import warnings
    warnings.filterwarnings("ignore")
    import numpy as np
    from vopy.utils import normalize, unnormalize
    from . import algotrace as AT
    bad = []
    n = 0
    for col, mm, st in rows:
        c = np.array(col, dtype=float)
        other = np.arange(len(col), dtype=float)
        cls = AT.register_dataset("VVS%d" % len(col), np.stack([c, other], axis=1), np.stack([c, 2 * other + 1], axis=1))
        ds = cls()
        n += 1
        em = np.array([m[0] / m[1] for m in mm])
        es = np.array([s[0] * math.sqrt(s[1] / s[2]) for s in st])
        if not (np.allclose(ds.in_data[:, 0], em, atol=1e-12) and np.allclose(ds.out_data[:, 0], es, atol=1e-9)
                and ds.in_dim == 2 and ds.out_dim == 2 and len(ds.in_data) == len(col)):
            bad.append({"kind": "dataset-scaling", "column": list(col), "expected_minmax": em.tolist(), "got_minmax": ds.in_data[:, 0].tolist(),
                        "expected_std": es.tolist(), "got_std": ds.out_data[:, 0].tolist()})
        data = np.stack([c, c / 3.0], axis=1)
        b = [(-1.0, 3.0), (0.0, 2.0)]
        d0 = data.copy()
        r1 = unnormalize(normalize(data, b), b)
        r2 = normalize(unnormalize(data, b), b)
        nm = normalize(data, b)
        if not (np.allclose(r1, data, atol=1e-12) and np.allclose(r2, data, atol=1e-12) and np.array_equal(data, d0)
                and np.allclose(nm[:, 0], (c + 1) / 4.0, atol=1e-12)):
            bad.append({"kind": "normalize-inverse", "column": list(col)})
    return n, bad


def _misc(_):
    """input immutability on the bundled continuous problem, bundled dataset statistics (auxiliary observation)"""
    import warnings
    warnings.filterwarnings("ignore")
    import numpy as np
    from vopy.datasets import get_dataset_instance
    from vopy.maximization_problem import BraninCurrin, DecoupledEvaluationProblem, get_continuous_problem
    bad = []
    aux = {}
    p = BraninCurrin(0.01)
    for x in (np.array([[0.3, 0.0], [0.2, 0.5]]), np.array([[0.0, 0.0]]), np.array([[0.5, 0.25], [1.0, 0.0], [0.0, 1.0]])):
        x0 = x.copy()
        f = p.evaluate(x, noisy=False)
        f_again = p.evaluate(x0.copy(), noisy=False)
        if not np.array_equal(x, x0):
            bad.append({"kind": "input-mutated", "problem": "BraninCurrin", "x_before": x0.tolist(), "x_after": x.tolist()})
        if f.shape != (len(x0), 2) or not np.allclose(f, f_again):
            bad.append({"kind": "continuous-shape", "problem": "BraninCurrin"})
        d = DecoupledEvaluationProblem(p)
        x1 = x0.copy()
        d.evaluate(x1, 0, noisy=False)
        if not np.array_equal(x1, x0):
            bad.append({"kind": "input-mutated", "problem": "Decoupled(BraninCurrin)", "x_before": x0.tolist(), "x_after": x1.tolist()})
    # one point given as a 1-D array: the value of that point, as one row (noiseless: exactly the row of the 2-D call)
    for x in (np.array([0.3, 0.0]), np.array([0.5, 0.25]), np.array([1.0, 1.0])):
        x0 = x.copy()
        try:
            f1 = np.asarray(p.evaluate(x, noisy=False))
            f2 = np.asarray(p.evaluate(x0.reshape(1, -1), noisy=False))
            if f1.shape != (1, 2) or not np.array_equal(f1, f2) or not np.array_equal(x, x0):
                bad.append({"kind": "continuous-1d", "problem": "BraninCurrin", "x": x0.tolist(), "got": f1.tolist(), "expected": f2.tolist()})
            with mock.patch("numpy.random.normal", return_value=np.array([[1.0, -2.0]])):
                y1 = np.asarray(p.evaluate(x0.copy(), noisy=True))
            if y1.shape != (1, 2) or not np.allclose(y1 - f2, 0.1 * np.array([[1.0, -2.0]]), rtol=1e-9, atol=0):
                bad.append({"kind": "continuous-1d-noise", "problem": "BraninCurrin", "x": x0.tolist(), "noise": (y1 - f2).tolist(), "expected": [[0.1, -0.2]]})
        except Exception as e:
            bad.append({"kind": "continuous-1d", "problem": "BraninCurrin", "x": x0.tolist(), "got": repr(e)[:200], "expected": "one row"})
    if type(get_continuous_problem("BraninCurrin", 0.01)).__name__ != "BraninCurrin":
        bad.append({"kind": "continuous-shape", "problem": "get_continuous_problem"})
    for name, n_, din, dout in (("Test", 32, 4, 2), ("SNW", 206, 3, 2), ("DiskBrake", 128, 4, 2), ("VehicleSafety", 500, 5, 3)):
        ds = get_dataset_instance(name)
        ok = (ds.in_data.shape == (n_, din) and ds.out_data.shape == (n_, dout) and ds.in_dim == din and ds.out_dim == dout
              and np.allclose(ds.in_data.min(axis=0), 0) and np.allclose(ds.in_data.max(axis=0), 1)
              and np.allclose(ds.out_data.mean(axis=0), 0, atol=1e-9) and np.allclose(ds.out_data.var(axis=0), 1, atol=1e-9))
        aux[name] = bool(ok)
        if not ok:
            bad.append({"kind": "bundled-dataset", "dataset": name})
    return aux, bad


def run(ctx):
    import vopy.maximization_problem  # noqa: F401
    thorough = ctx.tier == "thorough"
    designs = _designs(ctx.seed + 11, 40 if thorough else 14)
    mc = _mc(designs, 4)
    rows = {}
    for part in ("nearest", "noise", "scale"):
        res, states = tlc.dump_states("MCProb", CFG % part, files={"MCProb.tla": mc}, timeout=1500, workers=4)
        ctx.add_tlc(res, "ProblemTable/" + part)
        if res.violated or not res.ok:
            raise tlc.MachineryError("ProblemTable %s: %s %s" % (part, res.violated, res.error))
        rows[part] = states
    rn = [([list(p) for p in seq(st["cfg"]["X"])], list(st["cfg"]["q"]), st["ans"]) for st in rows["nearest"]]
    rz = [(list(st["cfg"]["z"]), [list(r) for r in st["cfg"]["L"]], list(st["ans"])) for st in rows["noise"]]
    rsx = [(list(seq(st["cfg"])), [list(m) for m in seq(st["ans"]["mm"])], [list(s) for s in seq(st["ans"]["st"])]) for st in rows["scale"]]
    byX = {}
    for r in rn:
        byX.setdefault(str(r[0]), []).append(r)
    out = pmap(_replay_nearest, [sum((byX[k] for k in ch), []) for ch in chunks(list(byX), 4)])
    out += pmap(_replay_noise, chunks(rz, 16)) + pmap(_replay_scale, chunks(rsx, 40))
    aux, badm = _misc(0)
    ncalls = sum(n for n, _ in out)
    bad = [b for _, bs in out for b in bs] + badm
    for b in bad:
        sig = "problem-%s" % b["kind"] + ("|%s" % b["problem"] if "problem" in b else "") + ("|diag=%s" % b["diagonal_factor"] if "diagonal_factor" in b else "")
        ctx.violation(sig, b, "problem / dataset behaviour differs from VOProblem: %s" % str(b)[:400])
    ctx.traces = len(rn) + len(rz) + len(rsx)
    ctx.evaluations = ncalls + 20
    for X, q, a in rn:
        ctx.nontriv((X, q))
    ctx.exhaustive = True
    ctx.extra.update({"nearest_rows": len(rn), "noise_rows": len(rz), "scale_rows": len(rsx), "design_sets": len(byX),
                      "auxiliary_bundled_dataset_statistics": aux,
                      "nearest_rows_with_ties": sum(1 for X, q, a in rn if sum(1 for x in X if (x[0] - q[0]) ** 2 + (x[1] - q[1]) ** 2 == (X[a - 1][0] - q[0]) ** 2 + (X[a - 1][1] - q[1]) ** 2) > 1)})
    ctx.rule = ("design sets of 3-5 lattice designs (duplicates allowed) x all 361 query points of the lattice -5..13 squared (on/off grid, ties, queries up to 5/8 outside the unit design box on every side); "
                "all draws {-2,0,1,3}^2 x 4 Cholesky factors (2 correlated); all integer columns of length 3-4 over 0..3")
    ctx.sample({"X": rn[5][0], "q": rn[5][1], "nearest": rn[5][2]})
    ctx.sample({"z": rz[7][0], "L": rz[7][1], "noise": rz[7][2]})
    ctx.assumptions += ["numpy.random.normal's distribution is trusted: the statistical law of the noise is reduced to y = f + z L^T for an explicit draw z",
                        "bundled dataset statistics are an auxiliary observation"]


def replay(body):
    c = body["case"]
    if c["kind"] in ("noise-chol", "continuous-noise"):
        L = c["L"]
        z = c["z"]
        ans = [z[0] * L[0][0] + z[1] * L[0][1], z[0] * L[1][0] + z[1] * L[1][1]]
        return not _replay_noise([(z, L, ans)])[1]
    if c["kind"] == "input-mutated" or c["kind"].startswith("bundled") or c["kind"].startswith("continuous-shape"):
        return not _misc(0)[1]
    return True

"""C09 - region 'is dominated' decides  forall z in R1, forall z' in R2 : z' + slack dominates z.

leg 1: TLC proves, exhaustively on a lattice, that the vertex-pair / support-function procedures equal the
       forall-forall DEFINITION (GeomTable.DomThm, GeomTable3.DomThm, EllTable.DomSound/BallDomDef).
leg 2: every row of the dumped tables is replayed into vopy.confidence_region (rectangles: exact, incl. the
       boundary at dyadic scales; ellipsoids: robust rows only) at several scales and slack forms.
"""
from . import geomtab as T
from .core import Ctx

PART = "dom"


def run(ctx: Ctx):
    import vopy.confidence_region  # noqa: F401  (import before forking workers)
    thorough = ctx.tier == "thorough"
    cones = T.ALL_CONES if thorough else T.QUICK_CONES
    G = 3 if thorough else 2
    slacks = T.SLACKS_T if thorough else T.SLACKS_Q
    rows = T.table(ctx, PART, cones, G, slacks)
    T.bind_refeval(ctx, PART, rows)
    calls, bad = T.replay(ctx, PART, rows, ctx.seed, every=(2 if thorough else 6))
    rows3 = T.table3(ctx, G=1) + (T.table3c(ctx, G=1) if PART == "dom" else [])          # 3-D: orthant and general integer cones (acute, obtuse, 4-facet)
    c3, bad3 = T.replay3(ctx, PART, rows3, ctx.seed, every=(1 if thorough else 5))
    if PART == "cov":
        T.bind_refeval3(ctx, PART, rows3)
        c3d, bad3d = T.eval3d(ctx, PART, ctx.seed, 4000 if thorough else 800)      # general 3-D cones: evaluator-based (bound on the orthant table)
        c3 += c3d
        bad3 += bad3d
    erows = T.elltable(ctx, cones if thorough else ["orth", "obtuse", "acute", "k3", "pyobt"],
                       T.SHAPES_T if thorough else T.SHAPES_Q, G=(6 if thorough else 5))
    T.bind_refeval_ell(ctx, erows)
    ce, bade = T.replay_ell(ctx, PART, erows, ctx.seed, every=(3 if thorough else 10))
    T.report(ctx, bad + bad3 + bade, "C09")
    ctx.traces = len(rows) + len(rows3) + len(erows)
    ctx.evaluations = calls + c3 + ce
    for r in rows + rows3:
        if r["ans"][PART][1] or r["ans"][PART][0]:
            ctx.nontriv(("rect", r["cone"], r["r1"], r["r2"], r["s"]))
    for r in erows:
        if r["ans"][PART][0] not in (False, "F"):
            ctx.nontriv(("ell", r["cone"], r["c2"], r["s1"], r["s2"], r["slack"]))
    ctx.rule = ("TLC enumerates every pair of lattice boxes (grid 0..%d, degenerate included) x cones %s x slacks, the 3-D orthant "
                "table, and ellipsoid pairs (shapes x centres x per-facet slacks); each row is replayed into the code at "
                "dyadic/decimal scales and scalar/vector slack forms. non-trivial = rows whose answer is TRUE or on the boundary "
                "(relaxed TRUE)." % (G, cones))
    ctx.exhaustive = True
    ctx.extra.update({"rect_rows": len(rows), "rect3_rows": len(rows3), "ell_rows": len(erows),
                      "ell_rows_robust": sum(1 for r in erows if r["ans"][PART][0] == r["ans"][PART][2] and r["ans"][PART][1] != "B"),
                      "code_calls": calls + c3 + ce})
    for r in (rows[:2] + rows3[:1] + erows[:2]):
        ctx.sample({k: v for k, v in r.items() if k != "allscales"})
    ctx.assumptions += ["exact geometry is 2-D for general cones and 3-D for the orthant only",
                        "ellipsoid rows are compared only when the answer is unchanged by +-1 lattice unit of slack"]


def replay(body):
    import numpy as np
    case = body["case"]
    if case["kind"].startswith("rect3"):
        _, bad = T.replay_rows3((PART, [dict(case["row"], allscales=True)], 0))
    elif case["kind"].startswith("rect"):
        case["row"]["r1"] = tuple(map(tuple, case["row"]["r1"])); case["row"]["r2"] = tuple(map(tuple, case["row"]["r2"]))
        _, bad = T.replay_rows((PART, [dict(case["row"], allscales=True)], 0))
    else:
        _, bad = T.replay_rows_ell((PART, [dict(case["row"], allscales=True)], 0))
    for b in bad:
        print(" still failing:", b["kind"], b["scale"], b["got"], "expected", b["expected"])
    return not bad

"""C06 - runs are monotone, terminate cleanly, never crash, and account for every sample

leg 1: TLC explores the abstract run model VOAlgoAbs (every relation configuration on N designs, every reachable
       (S, P, U)) for the algorithms concerned and checks the run invariants.
leg 3: real executions of the algorithm classes (driver matrix in harness.algocheck.matrix) are recorded through
       public attributes and a recording problem proxy, relations of the displayed regions are computed by the
       reference evaluator (bound to TLC tables by C09-C11), and every step is validated by spec/VOTraceAlgo.tla.
       This check owns the clauses nocrash, idle, disjoint, uinp, mono, noreturn, round, samples, cost, ret; rejections of other clauses are reported by their own checks.
"""
from . import algocheck as AC

PROP = "C06"
KIND = "run"
ALGS = ['PaVeBa', 'PaVeBaGP', 'PaVeBaPartialGP', 'VOGP', 'EpsilonPAL', 'Auer', 'NaiveElimination', 'DecoupledGP']


def run(ctx):
    import vopy.algorithms  # noqa: F401
    AC.abstract_model(ctx, ALGS, N=3, batch=2)
    from . import tlaps
    nob = tlaps.prove("VOAlgoProofs")       # unbounded: any design set, any relations, any number of rounds (tlapm)
    ctx.extra["tlaps_obligations_proved"] = nob
    ctx.trusted.append("tlapm 1.6 back ends (Zenon, SMT, PTL) for the unbounded set-level lemmas of spec/proofs/VOAlgoProofs.tla")
    if ctx.tier == "thorough":
        AC.abstract_model(ctx, [a for a in ALGS if a in ("PaVeBa", "PaVeBaGP", "PaVeBaPartialGP")], N=4, batch=3, maxround=2)
    AC.run_traces(ctx, KIND, PROP)
    from . import c18
    c18.run_ad(ctx, PROP)        # the ninth algorithm: VOGP_AD runs (spec/VOTraceTree.tla), run-level clauses
    ctx.rule = ("abstract model: all relations over 3 (thorough: 4) designs; traces: one per configuration of the driver matrix "
                "(algorithm x order x confidence type x batch x budget), every run_one_step() validated; non-trivial = distinct "
                "(algorithm, pre-state, relations, requests) steps")
    ctx.assumptions += ["relations of float regions are tri-valued with tolerance 1e-6 x scale; non-robust pairs are resolved existentially",
                        "the regions displayed after a step are the regions its decisions used (regions are written only by modeling)"]


def replay(body):
    return AC.replay_case(body, PROP)

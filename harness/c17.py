"""C17 - cone constants alpha, u*, d1 and beta are the optima they are defined as.

leg 1: TLC computes, for every pointed integer 2-D cone with interior (entries -E..E, 2 and 3 facets), alpha_n^2, z* and d1^2 as
       exact rationals by the closed forms of spec/VOConeConst.tla and proves them OPTIMAL against their definitions (no lattice
       direction of the cone does better / no feasible lattice point is shorter, z* feasible and in the cone); for theta-cones
       beta^2 alpha^2 = 1 and u* is the diagonal.
leg 2: the dumped table is replayed into get_alpha / get_alpha_vec / OrderingCone.alpha (unit-normalised rows),
       VOGP.compute_u_star and VOGP_AD.compute_u_star (rows as given), ConeTheta2D.beta / .alpha for theta = 2 atan(p/q);
       bundled 3-D cones and random 3-D cones are compared with the float evaluator, itself bound to the table.
"""
import concurrent.futures as cf
import math

from . import refeval as R
from . import tlc
from .c12 import PQS
from .pool import chunks, pmap
from .tlaval import seq, to_tla

CFG = """CONSTANTS
 E = %(E)d
 K = %(K)d
 G = %(G)d
 Part = "%(part)s"
 PQ <- ThePQ
 FirstRows <- TheFirst
INIT Init
NEXT Next
INVARIANT AlphaThm
INVARIANT ZThm
INVARIANT BetaThm
INVARIANT ThetaDiag
"""


def _table(ctx, part, E, K, G, nsplit):
    rows = [(a, b) for a in range(-E, E + 1) for b in range(-E, E + 1)]
    parts = chunks(rows, nsplit) if part == "cone" else [rows[:1]]
    out = []

    def one(first):
        mc = ("---- MODULE MCConst ----\nEXTENDS ConstTable\nThePQ == {%s}\nTheFirst == {%s}\n====\n"
              % (", ".join(to_tla(list(x)) for x in PQS), ", ".join(to_tla(list(x)) for x in first)))
        return tlc.dump_states("MCConst", CFG % dict(E=E, K=K, G=G, part=part), files={"MCConst.tla": mc}, workers=1, timeout=3000)

    with cf.ThreadPoolExecutor(max_workers=8) as ex:
        for res, states in ex.map(one, parts):
            ctx.add_tlc(res, "ConstTable/%s/K=%d/E=%d" % (part, K, E))
            if res.violated or not res.ok:
                raise tlc.MachineryError("ConstTable theorem %s fails (%s) %s" % (res.violated, res.error, res.trace[:1]))
            out += states
    return out


class _Fake:
    pass


def _replay_cones(rows):
    import warnings
    warnings.filterwarnings("ignore")
    import numpy as np
    from vopy.algorithms.vogp import VOGP
    from vopy.algorithms.vogp_ad import VOGP_AD
    from vopy.order import PolyhedralConeOrder
    from vopy.ordering_cone import OrderingCone
    from vopy.utils import get_alpha, get_alpha_vec
    bad = []
    for r in rows:
        try:
            W = np.array(r["W"], dtype=float)
            Wu = W / np.linalg.norm(W, axis=1, keepdims=True)
            exp_a = np.sqrt(np.array([a[0] / a[1] for a in r["alpha"]]))
            av = np.asarray(get_alpha_vec(Wu)).flatten()
            cone = OrderingCone(Wu)
            a_single = np.array([float(get_alpha(k, Wu)) for k in range(len(W))])
            if not (np.allclose(av, exp_a, atol=2e-6) and np.allclose(np.asarray(cone.alpha).flatten(), exp_a, atol=2e-6)
                    and np.allclose(a_single, exp_a, atol=2e-6) and np.asarray(cone.alpha).shape == (len(W), 1)):
                bad.append({"kind": "alpha", "row": r, "W": r["W"], "expected": exp_a.tolist(), "got": av.tolist()})
            z = np.array([r["zstar"][0] / r["zstar"][2], r["zstar"][1] / r["zstar"][2]])
            d1 = math.sqrt(r["d1sq"][0] / r["d1sq"][1])
            for cls in (VOGP, VOGP_AD):
                f = _Fake()
                f.order = PolyhedralConeOrder(OrderingCone(W))
                f.m = 2
                u, d = cls.compute_u_star(f)
                inC = bool(np.all(W @ u >= -1e-7))
                if not (abs(d - d1) <= 1e-5 * max(1, d1) and np.allclose(u, z / np.linalg.norm(z), atol=1e-5) and abs(np.linalg.norm(u) - 1) < 1e-9 and inC):
                    bad.append({"kind": "ustar-" + cls.__name__, "row": r, "W": r["W"], "expected_u": (z / np.linalg.norm(z)).tolist(), "expected_d1": d1,
                                "got_u": np.asarray(u).tolist(), "got_d1": float(d)})
        except Exception as e:      # the library raised on a cone the specification has constants for
            bad.append({"kind": "exception", "row": r, "W": r["W"], "expected": "constants", "got": repr(e)[:200]})
    return bad


def _replay_theta(rows):
    import warnings
    warnings.filterwarnings("ignore")
    import numpy as np
    from vopy.ordering_cone import ConeTheta2D
    bad = []
    for r in rows:
        p, q = r["pq"]
        theta = 2 * math.degrees(math.atan2(p, q))
        # an earlier caller of the public helper who modified ITS OWN result must not influence cones built afterwards
        try:
            from vopy.utils import get_2d_w
            w_own = get_2d_w(theta)
            w_own *= 3.0
            w_own[1] *= -0.5
        except Exception:
            pass
        c = ConeTheta2D(theta)
        if not np.allclose(np.linalg.norm(np.asarray(c.W, dtype=float), axis=1), 1.0, atol=1e-9):
            bad.append({"kind": "theta-W-not-unit", "row": r, "pq": [p, q], "theta": theta, "W": np.asarray(c.W).tolist()})
            continue
        beta = r["beta"][0] / r["beta"][1]
        alpha = math.sqrt(r["alpha"][0][0] / r["alpha"][0][1])
        if not (abs(c.beta - beta) < 1e-9 * max(1, beta) and np.allclose(np.asarray(c.alpha).flatten(), alpha, atol=2e-6)
                and abs(c.beta * float(np.asarray(c.alpha).flatten()[0]) - 1) < 1e-5):
            bad.append({"kind": "theta-beta", "row": r, "pq": [p, q], "theta": theta, "expected_beta": beta, "got_beta": float(c.beta),
                        "expected_alpha": alpha, "got_alpha": np.asarray(c.alpha).flatten().tolist()})
    # the boundary between the branches: 90 degrees exactly is "right or obtuse" -> 1 ; just below -> 1/sin
    for th, exp in ((90.0, 1.0), (89.0, 1 / math.sin(math.radians(89.0))), (120.0, 1.0), (30.0, 2.0)):
        if abs(ConeTheta2D(th).beta - exp) > 1e-9:
            bad.append({"kind": "theta-beta", "theta": th, "expected_beta": exp, "got_beta": float(ConeTheta2D(th).beta)})
    return bad


def _replay_3d(seed):
    import warnings
    warnings.filterwarnings("ignore")
    import numpy as np
    from vopy.algorithms.vogp import VOGP
    from vopy.order import ConeOrder3D, ConeOrder3DIceCream, PolyhedralConeOrder
    from vopy.ordering_cone import OrderingCone
    bad = []
    rs = np.random.RandomState(seed)
    cones = [("acute", ConeOrder3D("acute").ordering_cone.W), ("right", ConeOrder3D("right").ordering_cone.W), ("obtuse", ConeOrder3D("obtuse").ordering_cone.W)]
    for deg, K in ((30, 4), (45, 6), (60, 3), (20, 8)):
        cones.append(("ice%d-%d" % (deg, K), ConeOrder3DIceCream(deg, K).ordering_cone.W))
    for k in range(6):     # random pointed 3-D cones around the diagonal
        W = np.eye(3) + 0.6 * rs.randn(3, 3)
        W = W / np.linalg.norm(W, axis=1, keepdims=True)
        if np.all(W @ np.ones(3) > 0.2) and abs(np.linalg.det(W)) > 0.2:
            cones.append(("rand%d" % k, W))
    from scipy.optimize import linprog
    tries = 0
    while len(cones) < 30 and tries < 400:     # general position: facet normals with mixed-sign mutual inner products
        tries += 1
        K = int(rs.choice([3, 3, 4]))
        W = rs.randn(K, 3)
        W = W / np.linalg.norm(W, axis=1, keepdims=True)
        # interior: maximise t subject to W x >= t, |x|_inf <= 1
        res = linprog(c=[0, 0, 0, -1], A_ub=np.hstack([-W, np.ones((K, 1))]), b_ub=np.zeros(K), bounds=[(-1, 1)] * 3 + [(0, 1)])
        if res.status == 0 and res.x[3] > 0.15 and np.linalg.matrix_rank(W) == 3:
            cones.append(("gen%d" % tries, W))
    cones.append(("mixed-sign", np.array([[.48, .48, .73], [.32, -.59, -.74], [-.37, .64, -.68]]) / np.linalg.norm(np.array([[.48, .48, .73], [.32, -.59, -.74], [-.37, .64, -.68]]), axis=1, keepdims=True)))
    # integer-dtype cone matrices (as in the OrderingCone docstring): the only unit normals they can hold are signed axes -> alpha = 1
    for name, Wi in (("int-orth2", np.eye(2, dtype=int)), ("int-orth3", np.eye(3, dtype=int)), ("int-orth4", np.eye(4, dtype=int)),
                     ("int-redundant2", np.array([[1, 0], [0, 1], [1, 0]])), ("list-orth3", [[1, 0, 0], [0, 1, 0], [0, 0, 1]])):
        from vopy.utils import get_alpha_vec
        for got in (np.asarray(get_alpha_vec(np.array(Wi))).flatten(), np.asarray(OrderingCone(Wi).alpha).flatten()):
            if not np.allclose(got, 1.0, atol=2e-6):
                bad.append({"kind": "alpha-int-dtype", "cone": name, "W": np.asarray(Wi).tolist(), "expected": [1.0] * len(got), "got": got.tolist()})
    for name, W in cones:
        cone = OrderingCone(W)
        exp = np.array([R.alpha_float(W, n) for n in range(len(W))])
        got = np.asarray(cone.alpha).flatten()
        if not np.allclose(got, exp, atol=5e-6):
            bad.append({"kind": "alpha-3d", "cone": name, "W": np.asarray(W).tolist(), "expected": exp.tolist(), "got": got.tolist()})
        z = np.array(R.nearest_in_polyhedron([tuple(map(float, w)) for w in W], [1.0] * len(W), (0.0, 0.0, 0.0)))
        f = _Fake()
        f.order = PolyhedralConeOrder(cone)
        f.m = 3
        u, d = VOGP.compute_u_star(f)
        if not (abs(d - np.linalg.norm(z)) < 1e-5 and np.allclose(u, z / np.linalg.norm(z), atol=1e-5) and bool(np.all(W @ u >= -1e-7))):
            bad.append({"kind": "ustar-3d", "cone": name, "W": np.asarray(W).tolist(), "expected_u": (z / np.linalg.norm(z)).tolist(),
                        "expected_d1": float(np.linalg.norm(z)), "got_u": np.asarray(u).tolist(), "got_d1": float(d)})
    return len(cones), bad


def run(ctx):
    import vopy.algorithms  # noqa: F401
    thorough = ctx.tier == "thorough"
    states = _table(ctx, "cone", 3 if thorough else 2, 2, 6, 7)
    states += _table(ctx, "cone", 2 if thorough else 1, 3, 6, 5)
    rows = [{"W": [list(r) for r in seq(st["cfg"])], "alpha": [list(a) for a in seq(st["ans"]["alpha"])],
             "zstar": list(st["ans"]["zstar"]), "d1sq": list(st["ans"]["d1sq"])} for st in states]
    tst = _table(ctx, "theta", 2, 2, 6, 1)
    trow = [{"pq": list(st["cfg"]), "alpha": [list(a) for a in seq(st["ans"]["alpha"])], "beta": list(st["ans"]["beta"])} for st in tst]
    # bind the float evaluator to the table
    for r in rows:
        for n in range(len(r["W"])):
            if abs(R.alpha_float(r["W"], n) ** 2 - r["alpha"][n][0] / r["alpha"][n][1]) > 1e-9:
                raise tlc.MachineryError("refeval.alpha_float disagrees with TLC on %s" % r)
        z = R.nearest_in_polyhedron([tuple(map(float, w)) for w in r["W"]], [1.0] * len(r["W"]), (0.0, 0.0))
        if abs(z[0] - r["zstar"][0] / r["zstar"][2]) > 1e-9 or abs(z[1] - r["zstar"][1] / r["zstar"][2]) > 1e-9:
            raise tlc.MachineryError("refeval.nearest_in_polyhedron disagrees with TLC on %s" % r)
    if not thorough and len(rows) > 400:
        import random
        random.Random(ctx.seed).shuffle(rows)
        rows = rows[:400]
    bad = [b for bs in pmap(_replay_cones, chunks(rows, 48)) for b in bs]
    bad += _replay_theta(trow)
    out = pmap(_replay_3d, [ctx.seed * 10 + k for k in range(4 if thorough else 2)])
    bad += [b for _, bs in out for b in bs]
    for b in bad:
        ctx.violation("const-%s" % b["kind"], b, "cone constant mismatch: %s" % str(b)[:400])
    ctx.traces = len(rows) + len(trow) + sum(n for n, _ in out)
    ctx.evaluations = ctx.traces * 4
    for r in rows:
        ctx.nontriv(r["W"])
    for r in trow:
        ctx.nontriv(("theta", r["pq"]))
    ctx.exhaustive = thorough
    ctx.extra.update({"cones_replayed": len(rows), "cones_in_table": len(states), "theta_cones": len(trow)})
    ctx.rule = ("every pointed integer 2-D cone with interior (2 facets entries -2..2, thorough -3..3; 3 facets entries -1..1, thorough -2..2) - quick replays a "
                "random 400 of them - all theta-cones p,q <= 6, bundled and random 3-D cones; distinct = distinct cone matrices")
    ctx.sample(rows[0])
    ctx.sample(trow[3])
    ctx.assumptions += ["3-D and unit-normalised cones are compared with the float evaluator (bound to the exact 2-D table on every run)",
                        "solver tolerance: alpha 2e-6, u*/d1 1e-5"]


def replay(body):
    c = body["case"]
    if c["kind"].endswith("-3d"):
        return not _replay_3d(0)[1]
    if c["kind"].startswith("theta"):
        return not _replay_theta([c["row"]] if "row" in c else [])
    return not _replay_cones([c["row"]])

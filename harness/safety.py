"""Shared machinery of C01 / C05: TLC on spec/VOSafety.tla (valid displayed regions => accurate output) and replay
of TLC's behaviours / counterexamples into the real algorithm classes with a scripted posterior."""
import math

import numpy as np

from . import algotrace as AT
from . import tlc
from .pool import pmap
from .tlaval import to_tla

O = [[1, 0], [0, 1]]
OB = [[2, 1], [1, 2]]
AC = [[2, -1], [-1, 2]]
PYO = [[3, 4], [4, 3]]
PYA = [[-3, 4], [4, -3]]
K3 = [[1, 0], [0, 1], [1, 1]]

# name -> instantiation.  SD/SC objective-space shifts (boxes), AF per-facet slack (balls), AE gap bound per facet (row scale)
# code: how to build the real algorithm for replays
INST = {
    # ---- C01: PaVeBa family and Auer
    "pavgp-ih/orth": dict(prop="C01", Fam="paveba", Kind="box", W=O, SD=[0, 0], SC=[1, 1], AF=[1, 1], AE=[1, 1], G=2,
                          code=dict(alg="PaVeBaGP", type="IH", eps=1.0)),
    "pavgp-ih/orth-eps2": dict(prop="C01", Fam="paveba", Kind="box", W=O, SD=[0, 0], SC=[2, 2], AF=[2, 2], AE=[2, 2], G=3, N=2, mut=True,
                               code=dict(alg="PaVeBaGP", type="IH", eps=2.0)),
    "pavgp-ih/pyobt": dict(prop="C01", Fam="paveba", Kind="box", W=PYO, SD=[0, 0], SC=[4, 4], AF=[20, 20], AE=[20, 20], G=3, N=2,
                           code=dict(alg="PaVeBaGP", type="IH", eps=4.0)),
    "pavgp-ih/acute": dict(prop="C01", Fam="paveba", Kind="box", W=AC, SD=[0, 0], SC=[1, 1], AF=[2, 2], AE=[2, 2], G=3, N=2, mut=True,
                           code=dict(alg="PaVeBaGP", type="IH", eps=5.0 / 3.0)),     # alpha = 3/5 for unit rows: shift alpha*eps = 1 ; gap bound sqrt(5) -> floor
    "partial-rect/orth": dict(prop="C01", Fam="paveba", Kind="box", W=O, SD=[0, 0], SC=[1, 1], AF=[1, 1], AE=[1, 1], G=2,
                              code=dict(alg="PaVeBaPartialGP", eps=1.0)),
    "partial-rect/orth-eps2": dict(prop="C01", Fam="paveba", Kind="box", W=O, SD=[0, 0], SC=[2, 2], AF=[2, 2], AE=[2, 2], G=3, N=2, mut=True,
                                   code=dict(alg="PaVeBaPartialGP", eps=2.0)),
    "paveba/orth": dict(prop="C01", Fam="paveba", Kind="ball", W=O, SD=[0, 0], SC=[0, 0], AF=[1, 1], AE=[1, 1], G=2, RadMax=1, Iso=True, mut=True,
                        code=dict(alg="PaVeBa", eps=1.0)),
    "paveba/pyobt": dict(prop="C01", Fam="paveba", Kind="ball", W=PYO, SD=[0, 0], SC=[0, 0], AF=[10, 10], AE=[10, 10], G=3, N=2, RadMax=2, Iso=True,
                         code=dict(alg="PaVeBa", eps=2.0)),
    "auer/common-width": dict(prop="C01", Fam="auer", Kind="box", W=O, SD=[0, 0], SC=[0, 0], AF=[0, 0], AE=[1, 1], G=3, EpsA=2, Iso=True, mut=True,
                              code=dict(alg="Auer", eps=1.0, empirical=False)),
    "auer/per-objective-widths": dict(prop="C01", Fam="auer", Kind="box", W=O, SD=[0, 0], SC=[0, 0], AF=[0, 0], AE=[1, 1], G=2, EpsA=2,
                                      code=dict(alg="Auer", eps=1.0, empirical=True)),
    # ---- C05: VOGP and eps-PAL
    "vogp/orth": dict(prop="C05", Fam="vogp", Kind="box", W=O, SD=[1, 1], SC=[1, 1], AF=[1, 1], AE=[1, 1], G=2,
                      code=dict(alg="VOGP", eps=math.sqrt(2.0))),
    "vogp/obtuse": dict(prop="C05", Fam="vogp", Kind="box", W=OB, SD=[1, 1], SC=[1, 1], AF=[1, 1], AE=[1, 1], G=2, mut=True,
                        code=dict(alg="VOGP", eps=math.sqrt(2.0))),
    "vogp/acute": dict(prop="C05", Fam="vogp", Kind="box", W=AC, SD=[1, 1], SC=[1, 1], AF=[1, 1], AE=[1, 1], G=2,
                       code=dict(alg="VOGP", eps=math.sqrt(2.0))),
    "vogp/acute-g3": dict(prop="C05", Fam="vogp", Kind="box", W=AC, SD=[1, 1], SC=[1, 1], AF=[1, 1], AE=[1, 1], G=3, N=2, mut=True,
                          code=dict(alg="VOGP", eps=math.sqrt(2.0))),
    "vogp/k3": dict(prop="C05", Fam="vogp", Kind="box", W=K3, SD=[1, 1], SC=[1, 1], AF=[1, 1, 1], AE=[1, 1, 1], G=2,
                    code=dict(alg="VOGP", eps=math.sqrt(2.0))),
    "vogp/orth-eps2": dict(prop="C05", Fam="vogp", Kind="box", W=O, SD=[2, 2], SC=[2, 2], AF=[2, 2], AE=[2, 2], G=3, N=2, mut=True,
                           code=dict(alg="VOGP", eps=2 * math.sqrt(2.0))),
    "epal/orth": dict(prop="C05", Fam="vogp", Kind="box", W=O, SD=[1, 1], SC=[1, 1], AF=[1, 1], AE=[1, 1], G=2,
                      code=dict(alg="EpsilonPAL", eps=1.0)),
    "epal/orth-eps2": dict(prop="C05", Fam="vogp", Kind="box", W=O, SD=[2, 2], SC=[2, 2], AF=[2, 2], AE=[2, 2], G=3, N=2, mut=True,
                           code=dict(alg="EpsilonPAL", eps=2.0)),
    "epal/orth-eps0": dict(prop="C05", Fam="vogp", Kind="box", W=O, SD=[0, 0], SC=[0, 0], AF=[0, 0], AE=[0, 0], G=2,
                           code=dict(alg="EpsilonPAL", eps=0.0)),
}


STEP = 2     # lattice pitch of the model: all coordinates even, "robust" = not exactly on a boundary


def scaled(name):
    """the instantiation with every length (slacks, epsilon) expressed in model units (coarse units x STEP)"""
    I = dict(INST[name])
    for k in ("SD", "SC", "AF", "AE"):
        I[k] = [x * STEP for x in I[k]]
    I["EpsA"] = I.get("EpsA", 0) * STEP
    I["code"] = dict(I["code"], eps=I["code"]["eps"] * STEP)
    return I


def mc_cfg(I, N, inv, sim=False, mut=None):
    mc = ("---- MODULE MCSafe ----\nEXTENDS VOSafetyMut\ncW == %s\ncSD == %s\ncSC == %s\ncAF == %s\ncAE == %s\nRobustC == robust /\\ rnd <= 7\n====\n"
          % (to_tla(I["W"]), to_tla(I["SD"]), to_tla(I["SC"]), to_tla(I["AF"]), to_tla(I["AE"])))
    cfg = ('CONSTANTS\n Step = %d\n Mut = "%s"\n N = %d\n G = %d\n W <- cW\n Fam = "%s"\n Kind = "%s"\n SD <- cSD\n SC <- cSC\n AF <- cAF\n AE <- cAE\n'
           ' EpsA = %d\n Iso = %s\n RadMax = %d\nINIT Init\nNEXT Next\nCHECK_DEADLOCK FALSE\n'
           % (STEP, mut or "none", N, I["G"], I["Fam"], I["Kind"], I.get("EpsA", 0), "TRUE" if I.get("Iso") else "FALSE", I.get("RadMax", 1)))
    if mut:
        cfg += "PROPERTY NoDiff\nVIEW View\n"
    elif sim:
        cfg += "CONSTRAINT RobustC\n"
    else:
        cfg += "INVARIANT %s\nINVARIANT Sane\nVIEW View\n" % inv
    return mc, cfg


def bridge(I, name):
    """do the conditions of the relation-level theorems (VOAccuracyAbs: V1-V3 / W1, W3) hold in this instantiation's lattice geometry?
    Evaluated once by TLC (ASSUME + PrintT in the MC module); returns True / False, or None for kinds the bridge is not stated for."""
    if I["Kind"] != "box":
        return None
    mc, cfg = mc_cfg(I, 1, "Sane")
    mc = mc.replace("====\n", 'ASSUME PrintT(<<"BRIDGE", Bridge>>)\nBInit == mu = [i \\in D |-> <<0, 0>>] /\\ S = {} /\\ P = {} /\\ U = {} /\\ done = TRUE /\\ '
                    'reg = [i \\in D |-> Whole] /\\ rad = [i \\in D |-> 0] /\\ robust = TRUE /\\ rnd = 0\nBNext == UNCHANGED vars\n====\n')
    cfg = cfg.replace("INIT Init\nNEXT Next", "INIT BInit\nNEXT BNext").replace("INVARIANT Sane\nINVARIANT Sane\nVIEW View\n", "INVARIANT Sane\n")
    res = tlc.run("MCSafe", cfg, files={"MCSafe.tla": mc}, timeout=1200, workers=2)
    for v in res.prints:
        if isinstance(v, tuple) and len(v) == 2 and v[0] == "BRIDGE":
            return bool(v[1])
    raise tlc.MachineryError("bridge evaluation of %s gave no verdict: %s" % (name, (res.error or res.stdout[-400:])))


MUT_QUICK = {
    "pavgp-ih/orth-eps2": ["A-without-U", "useful-swapped", "cover-swapped", "dom-swapped"],
    "pavgp-ih/acute": ["A-without-U", "useful-swapped", "cover-swapped", "dom-corner"],
    "partial-rect/orth-eps2": ["A-without-U", "useful-swapped", "cover-swapped", "dom-swapped"],
    "paveba/orth": ["A-without-U", "useful-swapped", "cover-swapped", "dom-swapped"],
    "vogp/obtuse": ["cover-from-pess", "cover-from-S", "pess-over-S", "pdom-swapped"],
    "vogp/acute-g3": ["cover-from-pess", "cover-from-S", "pess-over-S", "pdom-swapped", "dom-corner"],
    "vogp/orth-eps2": ["disc-all-S", "pess-over-S", "pdom-swapped"],
    "epal/orth-eps2": ["disc-all-S", "pess-over-S", "pdom-swapped"],
}
MUTANTS = {"vogp": ["cover-from-pess", "cover-from-S", "disc-witness-any", "disc-all-S", "pess-over-S", "pdom-swapped", "dom-corner"],
           "paveba": ["A-without-U", "useful-from-U", "useful-swapped", "cover-swapped", "dom-swapped", "newU-in-cover", "disc-witness-P", "cover-from-P", "dom-corner"],
           "auer": ["auer-p1-strict", "auer-no-holdback", "auer-holdback-all"]}


# ------------------------------------------------------------------------------------ replay into the real classes
def _dataset(n):
    name = "VVL%d" % n
    if name not in AT._REGISTERED:
        rs = np.random.RandomState(100 + n)
        AT.register_dataset(name, rs.rand(n, 2), rs.randn(n, 2))
    return name


class TableModel(AT.ScriptedModel):
    """scripted posterior whose regions are set explicitly from a TLC state"""

    def __init__(self, points, m, kind):
        self.points = np.asarray(points, dtype=float)
        self.m, self.kind = m, kind
        n = len(self.points)
        self.lo = np.zeros((n, m))
        self.hi = np.zeros((n, m))
        self.sig = np.array([np.eye(m) for _ in range(n)])
        self.input_dim = self.points.shape[1]
        self.output_dim = m
        self.added = []
        self.t = 0

    def advance(self):
        pass


def build_for(I, n):
    """the real class, GP factory replaced by a TableModel, schedule constant 1, slack verified then set to the exact lattice value"""
    import importlib
    code = I["code"]
    alg_name = code["alg"]
    kind = {"box": "rect", "ball": "ball"}[I["Kind"]]
    if I["Fam"] == "auer":
        kind = "auer"
    cfg = dict(alg=alg_name, dataset=_dataset(n), eps=code["eps"], noise=0.01, tid=0, script=dict(kind=kind, G=I["G"] * STEP))
    if alg_name not in ("EpsilonPAL", "Auer"):
        cfg["order"] = ("Wint", I["W"])
    for k in ("type", "empirical"):
        if k in code:
            cfg[k] = code[k]
    modname = {"PaVeBa": "paveba", "PaVeBaGP": "paveba_gp", "PaVeBaPartialGP": "paveba_partial_gp", "VOGP": "vogp",
               "EpsilonPAL": "epal", "Auer": "auer"}[alg_name]
    mod = importlib.import_module("vopy.algorithms." + modname)
    holder = {}

    def fake_factory(*args, **kw):
        holder["model"] = TableModel(kw["X"], kw["Y"].shape[1], kind)
        return holder["model"]

    saved = {}
    for name in ("get_gpytorch_model_w_known_hyperparams", "get_gpytorch_modellist_w_known_hyperparams"):
        if hasattr(mod, name):
            saved[name] = getattr(mod, name)
            setattr(mod, name, fake_factory)
    try:
        alg = AT.build(cfg)
    finally:
        for name, f in saved.items():
            setattr(mod, name, f)
    m = alg.m
    if "model" not in holder:
        holder["model"] = TableModel(alg.design_space.points, m, kind)
        alg.model = holder["model"]
    model = holder["model"]
    notes = {}
    if alg_name in ("VOGP",):
        alg.compute_beta = lambda: np.ones(m)
        exp = np.array(I["SC"], dtype=float)
        notes["slack_err"] = float(np.max(np.abs(alg.u_star_eps - exp)))
        alg.u_star_eps = exp
    elif alg_name == "EpsilonPAL":
        alg.compute_beta = lambda: np.ones(m)
        notes["slack_err"] = float(abs(alg.epsilon - I["SC"][0]))
    elif alg_name in ("PaVeBaGP", "PaVeBaPartialGP"):
        alg.compute_alpha = lambda: np.float64(1.0)
        exp = np.array(I["SC"], dtype=float)
        # alpha of the integer-row cone = |w_n| * alpha of the unit cone; the code multiplies by eps and uses it as an objective shift.
        norms = np.linalg.norm(np.array(I["W"], dtype=float), axis=1)
        notes["slack_err"] = float(np.max(np.abs(alg.cone_alpha_eps / norms - exp)))
        alg.cone_alpha_eps = exp
    elif alg_name == "PaVeBa":
        exp = np.array(I["AF"], dtype=float)
        notes["slack_err"] = float(np.max(np.abs(alg.cone_alpha_eps - exp)))
        alg.cone_alpha_eps = exp
        alg.compute_radius = lambda: np.float64(model.radius)
    elif alg_name == "Auer":
        def beta_rows():
            idx = list(alg.S)
            return np.array([(model.hi[i] - model.lo[i]) / 2 for i in idx]).reshape(len(idx), m)
        alg.compute_beta = beta_rows
        notes["slack_err"] = float(abs(alg.epsilon - I.get("EpsA", 0) / 2))
    return alg, model, notes


def replay_behaviour(args):
    """args = (instantiation name, list of TLC states).  Runs the real class along the behaviour; returns a report dict."""
    name, states = args
    I = scaled(name)
    n = len(AT.tlc.tlaval.seq(states[0]["mu"]))
    import warnings
    warnings.filterwarnings("ignore")
    np.seterr(all="ignore")
    alg, model, notes = build_for(I, n)
    rep = {"name": name, "steps": 0, "mismatch": None, "notes": notes, "final": None, "mu": [list(v) for v in AT.tlc.tlaval.seq(states[0]["mu"])]}
    if notes.get("slack_err", 0) > 1e-6:
        rep["mismatch"] = {"kind": "slack", "detail": "the slack the algorithm object built differs from the specification's constant by %g" % notes["slack_err"]}
        return rep
    for k in range(1, len(states)):
        st = states[k]
        regs = AT.tlc.tlaval.seq(st["reg"])
        rads = AT.tlc.tlaval.seq(st["rad"])
        for i in range(n):
            model.lo[i] = np.array(regs[i]["lo"], dtype=float)
            model.hi[i] = np.array(regs[i]["hi"], dtype=float)
        act = [i for i in range(n) if (i + 1) in set(states[k - 1]["S"]) | set(states[k - 1]["U"])]
        model.radius = max([rads[i] for i in act] or [1])
        try:
            ret = bool(alg.run_one_step())
        except Exception as e:
            rep["mismatch"] = {"kind": "exception", "step": k, "detail": repr(e)}
            return rep
        got = {"S": sorted(i + 1 for i in alg.S), "P": sorted(i + 1 for i in alg.P), "U": sorted(i + 1 for i in getattr(alg, "U", ())),
               "done": ret}
        exp = {"S": sorted(st["S"]), "P": sorted(st["P"]), "U": sorted(st["U"]) if I["Fam"] == "paveba" else [], "done": st["done"]}
        rep["steps"] = k
        if got != exp:
            rep["mismatch"] = {"kind": "state", "step": k, "expected": exp, "got": got,
                               "regions": [{"lo": list(r["lo"]), "hi": list(r["hi"])} for r in regs], "radii": list(rads),
                               "pre": {"S": sorted(states[k - 1]["S"]), "P": sorted(states[k - 1]["P"]), "U": sorted(states[k - 1]["U"])}}
            return rep
        if ret:
            rep["final"] = got["P"]
            break
    return rep


def accurate(I, mu, P):
    """evaluate the accuracy statement on the code's P with exact integer arithmetic (mirrors VOSafety!AccurateP / AccurateV)."""
    W = I["W"]
    n = len(mu)
    P = set(P)
    dot = lambda w, d: w[0] * d[0] + w[1] * d[1]
    sub = lambda a, b: (a[0] - b[0], a[1] - b[1])
    if I["prop"] == "C01":
        for i in range(1, n + 1):
            if i not in P and not any(all(dot(w, sub(mu[j - 1], mu[i - 1])) >= 0 for w in W) for j in P):
                return False, "design %d left out of P is not weakly dominated by any member of P" % i
        for i in P:
            for j in range(1, n + 1):
                if j != i and not any(dot(w, sub(mu[j - 1], mu[i - 1])) <= ae for w, ae in zip(W, I["AE"])):
                    return False, "design %d in P has gap > eps (design %d exceeds it by more than eps in every facet)" % (i, j)
        return True, ""
    s = I["SC"]
    for i in range(1, n + 1):
        iso = not any(j != i and all(dot(w, sub((mu[j - 1][0] + s[0], mu[j - 1][1] + s[1]), mu[i - 1])) >= 0 for w in W) for j in range(1, n + 1))
        if iso and i not in P:
            return False, "eps-isolated design %d is not in P" % i
    for i in P:
        for j in P:
            if i != j and all(dot(w, sub(sub(mu[j - 1], mu[i - 1]), s)) > 0 for w in W):
                return False, "member %d of P is dominated by member %d by more than the eps-slack" % (i, j)
    return True, ""


ABS_CFG = 'CONSTANTS\n D = %s\n Fam = "%s"\n UseV2 = %s\n UseV3 = %s\n UseV4 = %s\nINIT Init\nNEXT Next\nINVARIANT %s\nINVARIANT Sane\nCHECK_DEADLOCK FALSE\n'


def relation_level(ctx, prop):
    """the accuracy statement without geometry (spec/VOAccuracyAbs.tla): TLC for every truth and environment on 2-3 designs, the
    conditions shown to be needed (dropping one yields an inaccurate run), and the tlapm proof for every design set"""
    from . import tlaps
    fams = [("paveba", "PavebaInv"), ("auer", "AuerInv")] if prop == "C01" else [("vogp", "VogpInv")]
    quick = ctx.tier != "thorough"
    for fam, inv in fams:
        # exhaustive over every truth and environment: three designs (Auer in the quick tier: two designs; three designs - 3 million states - in the thorough tier)
        Dmain = "{1, 2}" if fam == "vogp" or (fam == "auer" and quick) else "{1, 2, 3}"
        runs = [(Dmain, "TRUE", "TRUE", "TRUE", True)]
        if fam == "paveba":
            runs += [("{1, 2, 3}", "FALSE", "TRUE", "TRUE", False), ("{1, 2, 3}", "TRUE", "FALSE", "TRUE", False)]
        if fam == "auer":
            runs += [("{1, 2, 3}", "FALSE", "TRUE", "TRUE", False), ("{1, 2, 3}", "TRUE", "FALSE", "TRUE", False), ("{1, 2, 3}", "TRUE", "TRUE", "FALSE", False)]
        for D, v2, v3, v4, expect in runs:
            res = tlc.run("VOAccuracyAbs", ABS_CFG % (D, fam, v2, v3, v4, inv), timeout=1500)
            ctx.add_tlc(res, "VOAccuracyAbs/%s D=%s V2=%s V3=%s V4=%s" % (fam, D, v2, v3, v4))
            if expect and (res.violated or not res.ok):
                raise tlc.MachineryError("VOAccuracyAbs %s: %s %s" % (fam, res.violated, res.error))
            if not expect and res.violated != inv:
                raise tlc.MachineryError("VOAccuracyAbs %s without V2=%s V3=%s V4=%s should have an inaccurate run (vacuity guard): %s %s" % (fam, v2, v3, v4, res.violated, res.error))
        if fam == "vogp":
            r, behs = tlc.simulate("VOAccuracyAbs", (ABS_CFG % ("{1, 2, 3}", fam, "TRUE", "TRUE", "TRUE", inv)), num=(400 if ctx.tier == "thorough" else 60), depth=8,
                                   seed=ctx.seed + 5, timeout=1200)
            ctx.add_tlc(r, "VOAccuracyAbs/vogp -simulate D=3")
            if r.violated:
                raise tlc.MachineryError("VOAccuracyAbs vogp D=3 (simulation): %s" % r.violated)
    nob = tlaps.prove("VOAccuracyProofs")
    ctx.extra["tlaps_obligations_proved"] = nob
    ctx.trusted.append("tlapm 1.6 back ends (Zenon, SMT, PTL) for the relation-level accuracy theorems of spec/proofs/VOAccuracyProofs.tla (any number of designs)")


def geometry_premise(ctx, prop):
    """the accuracy argument rests on the region predicates being the specification's (VOSafety computes its relations with VOGeometry):
    the three-objective rows of the C09 - C11 tables - the part the two-objective lattice runs of this check cannot reach - are replayed
    here as well (orthant and general integer cones for 'is dominated', the orthant table and evaluator-based general cones for 'is
    covered' and the pessimistic comparison)."""
    from . import geomtab as T
    rows3 = T.table3(ctx, G=1)
    rows3c = T.table3c(ctx, G=1)
    bad = []
    n = 0
    c, b = T.replay3(ctx, "dom", rows3 + rows3c, ctx.seed, every=5)
    n += c
    bad += b
    for part in (("cov", "pdom") if prop == "C05" else ("cov",)):
        T.bind_refeval3(ctx, part, rows3)
        c, b = T.replay3(ctx, part, rows3, ctx.seed, every=5)
        n += c
        bad += b
        c, b = T.eval3d(ctx, part, ctx.seed + 11, 400)
        n += c
        bad += b
    for x in bad:
        ctx.violation("premise-%s|cone=%s" % (x["kind"], x["row"]["cone"]), x, "region predicate (premise of the accuracy argument) %s: code answered %s, specification says %s for %s" % (
            x["kind"], x["got"], x["expected"], {k: v for k, v in x["row"].items() if k not in ("ans", "allscales")}))
    ctx.evaluations += n
    ctx.extra["geometry_premise_calls"] = n


def run_prop(ctx, prop):
    import vopy.algorithms  # noqa: F401
    thorough = ctx.tier == "thorough"
    relation_level(ctx, prop)
    geometry_premise(ctx, prop)
    inv = "AccuratePRobust" if prop == "C01" else "AccurateVRobust"
    names = [k for k, v in INST.items() if v["prop"] == prop]
    jobs = []
    mutjobs = []
    for name in names:
        I = scaled(name)
        N = I.get("N", 3)
        if not thorough and I["Kind"] == "ball" and N == 3:
            N = 2          # ball relations are not tabulated: N = 3 takes ~25 s, kept for the thorough tier
        mc, cfg = mc_cfg(I, N, inv)
        res = tlc.run("MCSafe", cfg, files={"MCSafe.tla": mc}, timeout=3000)
        ctx.add_tlc(res, "VOSafety/%s/N=%d/G=%d" % (name, N, I["G"]))
        if res.error and not res.violated:
            raise tlc.MachineryError("VOSafety %s: %s" % (name, res.error))
        br = bridge(I, name)
        ctx.extra.setdefault("bridge_to_relation_level_theorem", {})[name] = br
        if br and res.violated and res.violated != "Sane":
            # proofs/VOAccuracyProofs (tlapm, any number of designs) says accuracy follows from the bridge conditions
            raise tlc.MachineryError("VOSafety %s: the bridge conditions hold on the lattice but TLC reports %s violated - the specification "
                                     "contradicts its own relation-level theorem" % (name, res.violated))
        if res.violated:
            if res.violated == "Sane":
                raise tlc.MachineryError("VOSafety %s violates Sane" % name)
            # the theorem fails in the MODEL: it only counts if the real class reproduces the counterexample
            rep = replay_behaviour((name, res.trace))
            mu = rep["mu"]
            ctx.traces += 1
            if rep["mismatch"] is not None:
                # the code leaves the behaviour (a different slack than alpha*eps of the configured cone, another transition, an exception):
                # the same report as for simulated behaviours below
                mm = rep["mismatch"]
                ctx.violation("replay-%s|%s" % (mm["kind"], name), {"instantiation": name, "truth": rep["mu"], "mismatch": mm, "states": len(res.trace)},
                              "%s: the real class leaves TLC's counterexample behaviour: %s" % (name, mm))
                continue
            ok, why = accurate(I, mu, rep["final"] or [])
            if ok or rep["final"] is None:
                raise tlc.MachineryError("counterexample of %s replayed into the code gives an accurate P %s" % (name, rep["final"]))
            ctx.count("model_counterexamples_reproduced_on_code")
            from .algocheck import cone_class
            sig = "inaccurate|%s|%s|cone=%s" % (I["code"]["alg"], I["code"].get("type") or ("empirical" if I["code"].get("empirical") else I["Kind"]),
                                                 cone_class(I["W"]))
            ctx.violation(sig, {"instantiation": name, "truth": mu, "behaviour": [_jstate(s) for s in res.trace], "code_P": rep["final"]},
                          "%s: with valid displayed regions in every round the real %s returns P=%s for truths %s: %s" % (name, I["code"]["alg"], rep["final"], mu, why))
            ctx.nontriv(("cex", name))
            continue
        # theorem holds: generate behaviours from the same model and push them through the real class
        mcs, cfgs = mc_cfg(I, N, inv, sim=True)
        num = 150 if thorough else 40
        r, behs = tlc.simulate("MCSafe", cfgs, num=num, depth=9, seed=ctx.seed * 13 + len(jobs) + 1, files={"MCSafe.tla": mcs}, timeout=1200)
        ctx.add_tlc(r, "VOSafety/%s -simulate" % name)
        if len(behs) < num // 2:
            raise tlc.MachineryError("simulation of %s gave %d behaviours: %s" % (name, len(behs), r.error))
        for b in behs:
            jobs.append((name, [st for _, st in b]))
        if I.get("mut"):
            mutjobs.append((name, I, N))
    # goal-directed behaviours: for every spec mutant of the round, TLC's shortest behaviour on which mutant and real rule differ
    import concurrent.futures as cf

    def mut_search(arg):
        name, I, N, mut = arg
        mc, cfg = mc_cfg(I, N, inv, mut=mut)
        try:
            return name, mut, tlc.run("MCSafe", cfg, files={"MCSafe.tla": mc}, workers=4, timeout=1500)
        except tlc.MachineryError as e:
            if "timeout" in str(e):
                return name, mut, None
            raise

    # quick tier: only the (instantiation, mutant) pairs known to be distinguishable on that lattice (TLC stops at the first
    # difference); the thorough tier also re-establishes which mutants are equivalent there (full exploration each)
    todo = [(name, I, N, m) for (name, I, N) in mutjobs for m in MUTANTS[I["Fam"]] if thorough or m in MUT_QUICK.get(name, MUTANTS[I["Fam"]])]
    killed = {}
    with cf.ThreadPoolExecutor(max_workers=6) as ex:
        for name, mut, res in ex.map(mut_search, todo):
            if res is None:
                ctx.extra.setdefault("spec_mutant_searches_timed_out", []).append("%s/%s" % (name, mut))
                continue
            ctx.add_tlc(res, "VOSafetyMut/%s/%s" % (name, mut))
            if res.violated == "NoDiff" and res.trace:
                jobs.append((name, res.trace))
                killed.setdefault(name, []).append(mut)
            elif not res.ok:
                raise tlc.MachineryError("mutant search %s/%s: %s" % (name, mut, res.error or res.violated))
    ctx.extra["spec_mutants_distinguished"] = killed
    ctx.extra["spec_mutants_equivalent_on_lattice"] = {n: [m for m in MUTANTS[scaled(n)["Fam"]] if m not in killed.get(n, [])] for (n, _, _) in mutjobs}
    reps = pmap(replay_behaviour, jobs)
    done = 0
    for (name, states), rep in zip(jobs, reps):
        I = scaled(name)
        ctx.traces += 1
        ctx.evaluations += rep["steps"]
        ctx.nontriv((name, rep["mu"], [(sorted(s["S"]), sorted(s["P"])) for s in states]))
        if rep["mismatch"] is not None:
            mm = rep["mismatch"]
            # a transition mismatch is a C02/C03-type disagreement; it is reported here as well because the accuracy
            # theorem was proved about the specification's transitions
            ctx.violation("replay-%s|%s" % (mm["kind"], name), {"instantiation": name, "truth": rep["mu"], "mismatch": mm,
                          "behaviour": [_jstate(s) for s in states]},
                          "%s: the real %s leaves the specification's behaviour at step %s: %s" % (name, I["code"]["alg"], mm.get("step"), str(mm)[:300]))
            continue
        if rep["final"] is not None:
            done += 1
            ok, why = accurate(I, rep["mu"], rep["final"])
            if not ok:
                ctx.violation("inaccurate-replay|%s" % name, {"instantiation": name, "truth": rep["mu"], "code_P": rep["final"],
                              "behaviour": [_jstate(s) for s in states]}, "%s: %s" % (name, why))
    from . import algocheck
    algocheck.accuracy_runs(ctx, prop)
    ctx.extra["behaviours_replayed"] = len(jobs)
    ctx.extra["behaviours_reaching_termination"] = done
    ctx.extra["instantiations"] = names
    if jobs:
        ctx.sample({"instantiation": jobs[0][0], "behaviour": [_jstate(s) for s in jobs[0][1]][:4]})
    ctx.rule = ("VOSafety model-checked exhaustively per instantiation (all truths on the grid, all valid regions per round, to termination); "
                "behaviours from tlc -simulate (robust relations only) replayed step by step into the real classes with a scripted posterior; "
                "distinct = distinct (instantiation, truth, S/P history)")
    ctx.assumptions += ["lattice geometry: N <= 3 designs, truth grid (G+1)^2, 2 objectives", "confidence schedule overridden to 1 in replays (C04 not claimed)",
                        "slack constants of the model are compared with the ones the algorithm object builds (1e-6) before being set exactly"]


def _jstate(s):
    return {"S": sorted(s["S"]), "P": sorted(s["P"]), "U": sorted(s["U"]), "done": s["done"],
            "reg": [{"lo": list(r["lo"]), "hi": list(r["hi"])} for r in AT.tlc.tlaval.seq(s["reg"])], "rad": list(AT.tlc.tlaval.seq(s["rad"])),
            "mu": [list(v) for v in AT.tlc.tlaval.seq(s["mu"])]}


def replay_case(body, prop):
    c = body["case"]
    name = c["instantiation"]
    I = scaled(name)
    states = []
    for s in c["behaviour"]:
        states.append({"S": frozenset(s["S"]), "P": frozenset(s["P"]), "U": frozenset(s["U"]), "done": s["done"],
                       "reg": tuple({"lo": tuple(r["lo"]), "hi": tuple(r["hi"])} for r in s["reg"]), "rad": tuple(s["rad"]),
                       "mu": tuple(tuple(v) for v in s["mu"])})
    rep = replay_behaviour((name, states))
    if rep["mismatch"] is not None:
        print(" code leaves the behaviour:", rep["mismatch"])
        return body["signature"].startswith("inaccurate")   # cannot reproduce the inaccuracy any more
    if rep["final"] is None:
        return True
    ok, why = accurate(I, rep["mu"], rep["final"])
    if not ok:
        print(" still inaccurate:", why, "P =", rep["final"])
    return ok

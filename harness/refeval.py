"""Reference evaluator: line-by-line transcription of the operators of spec/VOGeometry.tla,
spec/VOCone.tla and spec/VOMetrics.tla into Python.

It is NOT trusted by fiat: every check that uses it first binds it to a table TLC dumped from the
specification (bind_* functions / harness.c09 ... c11) - it must agree with TLC on every configuration
of the lattice before it is used off the lattice (float regions of real runs).

All functions are generic in the number type (int / Fraction: exact; float: used with margins).
Boxes are (lo, hi) tuples of sequences; cones are sequences of rows.
"""
import itertools
from fractions import Fraction as Fr


def dot(a, b):
    return sum(x * y for x, y in zip(a, b))


def sub(a, b):
    return tuple(x - y for x, y in zip(a, b))


def add(a, b):
    return tuple(x + y for x, y in zip(a, b))


def incone(W, x, tol=0):
    return all(dot(w, x) >= -tol for w in W)


def verts(lo, hi):
    return list(itertools.product(*[(l, h) for l, h in zip(lo, hi)]))


# ---------------------------------------------------------------- rectangles
def dom_box(W, b1, b2, s):
    """VOGeometry!Dom : every vertex pair (is_dominated, rectangles; s = objective-space shift)."""
    return all(incone(W, sub(add(zp, s), z)) for z in verts(*b1) for zp in verts(*b2))


def dom_box_margin(W, b1, b2, s):
    """min over vertex pairs and facets of w.(z'+s-z) / |w|  (>= 0 <=> dominated)."""
    best = None
    for z in verts(*b1):
        for zp in verts(*b2):
            d = sub(add(zp, s), z)
            for w in W:
                v = dot(w, d) / (dot(w, w) ** 0.5)
                best = v if best is None or v < best else best
    return best


def _solve(A, b):
    """solve square system (m = 1, 2, 3) by Cramer; returns None if singular. generic number type."""
    m = len(A)
    if m == 1:
        if A[0][0] == 0:
            return None
        return (b[0] / A[0][0] if isinstance(b[0], float) or isinstance(A[0][0], float) else Fr(b[0]) / Fr(A[0][0]),)
    if m == 2:
        det = A[0][0] * A[1][1] - A[0][1] * A[1][0]
        if det == 0:
            return None
        x = b[0] * A[1][1] - A[0][1] * b[1]
        y = A[0][0] * b[1] - b[0] * A[1][0]
        if isinstance(det, float) or isinstance(x, float) or isinstance(y, float):
            return (x / det, y / det)
        return (Fr(x) / Fr(det), Fr(y) / Fr(det))

    def det3(M):
        return (M[0][0] * (M[1][1] * M[2][2] - M[1][2] * M[2][1]) - M[0][1] * (M[1][0] * M[2][2] - M[1][2] * M[2][0])
                + M[0][2] * (M[1][0] * M[2][1] - M[1][1] * M[2][0]))

    d = det3(A)
    if d == 0:
        return None
    out = []
    for k in range(3):
        M = [list(r) for r in A]
        for r in range(3):
            M[r][k] = b[r]
        n = det3(M)
        out.append(n / d if isinstance(n, float) or isinstance(d, float) else Fr(n) / Fr(d))
    return tuple(out)


def feasible(lo, hi, W, t, tol=0, sing=0):
    """VOGeometry!FeasibleV generalised to dimension m <= 3:
    { d in [lo,hi] : W d >= t } is non-empty iff one of the candidate vertices (intersection of m
    constraint hyper-planes) is feasible.   tol: feasibility slack for floats."""
    m = len(lo)
    cons = []
    for k in range(m):
        e = tuple(1 if j == k else 0 for j in range(m))
        cons.append((e, lo[k]))
        cons.append((e, hi[k]))
    for w, tt in zip(W, t):
        cons.append((tuple(w), tt))
    for comb in itertools.combinations(range(len(cons)), m):
        A = [cons[i][0] for i in comb]
        b = [cons[i][1] for i in comb]
        if sing:
            # float mode: skip near-singular systems
            if m == 2:
                det = A[0][0] * A[1][1] - A[0][1] * A[1][0]
                if abs(det) < sing:
                    continue
        p = _solve(A, b)
        if p is None:
            continue
        if all(lo[k] - tol <= p[k] <= hi[k] + tol for k in range(m)) and all(
                dot(w, p) >= tt - tol for w, tt in zip(W, t)):
            return True
    return False


def cov_box(W, b1, b2, s, dt=0):
    """VOGeometry!Cov : some z in b1, z' in b2 with z' - z - s in C   (dt added to every facet rhs)."""
    lo = sub(b2[0], b1[1])
    hi = sub(b2[1], b1[0])
    return feasible(lo, hi, W, [dot(w, s) + dt for w in W])


def pdom_box(W, b1, b2, dt=0):
    """VOGeometry!PDomT : every vertex of b1 dominates some point of b2 (by dt per facet)."""
    return all(feasible(sub(v, b2[1]), sub(v, b2[0]), W, [dt] * len(W)) for v in verts(*b1))


def ext_poly(pt, poly):
    """VOGeometry!ExtPoly - the procedure of utils.is_pt_in_extended_polytope (exact arithmetic)."""
    n = len(pt)
    if any(all(v[k] <= pt[k] for k in range(n)) for v in poly):
        return True
    for d in range(n):
        for i, vi in enumerate(poly):
            for j, vj in enumerate(poly):
                if i == j or not (vi[d] <= pt[d] <= vj[d]) or vi[d] == vj[d]:
                    continue
                den = vj[d] - vi[d]
                num = pt[d] - vi[d]
                if all(vi[k] * den + num * (vj[k] - vi[k]) <= pt[k] * den for k in range(n)):
                    return True
    return False


def pdom_proc(W, b1, b2):
    img = lambda v: tuple(dot(w, v) for w in W)
    P2 = [img(v) for v in verts(*b2)]
    return all(ext_poly(img(v), P2) for v in verts(*b1))


def overlap(b1, b2):
    return not (any(l1 >= h2 for l1, h2 in zip(b1[0], b2[1])) or any(h1 <= l2 for h1, l2 in zip(b1[1], b2[0])))


def intersect(b1, b2):
    if overlap(b1, b2):
        return (tuple(max(a, b) for a, b in zip(b1[0], b2[0])), tuple(min(a, b) for a, b in zip(b1[1], b2[1])))
    return b2


# ---------------------------------------------------------------- balls / ellipsoids
def ball_dom(W, c1, r1, c2, r2, a):
    """VOGeometry!BallDom (exact for integer data)."""
    for w, an in zip(W, a):
        A = dot(w, sub(c2, c1)) + an
        if not (A >= 0 and A * A >= (r1 + r2) ** 2 * dot(w, w)):
            return False
    return True


def ball_dom_margin(W, c1, r1, c2, r2, a):
    """float: min_n ( w.(c2-c1) + a_n ) / |w| - (r1 + r2)"""
    return min((dot(w, sub(c2, c1)) + an) / dot(w, w) ** 0.5 - (r1 + r2) for w, an in zip(W, a))


def dist2_to_polyhedron(W, a, c):
    """squared distance from c to { d : W d >= a } (dimension <= 3): the nearest point is the projection of c
    onto the affine hull of some active set of <= m facets; enumerate active sets.  (VOGeometry!BallCov in 2-D)"""
    m = len(c)
    K = len(W)
    best = None
    exact = not any(isinstance(x, float) for x in list(c) + list(a) + [y for w in W for y in w])
    for size in range(0, min(m, K) + 1):
        for act in itertools.combinations(range(K), size):
            if size == 0:
                p = tuple(c)
            else:
                # p = c + W_A^T lam ; W_A p = a_A  =>  (W_A W_A^T) lam = a_A - W_A c
                Wa = [W[i] for i in act]
                G = [[dot(u, v) for v in Wa] for u in Wa]
                rhs = [a[i] - dot(W[i], c) for i in act]
                lam = _solve(G, rhs)
                if lam is None:
                    continue
                p = tuple(c[k] + sum(lam[j] * Wa[j][k] for j in range(size)) for k in range(m))
            tol = 0 if exact else 1e-12 * max(1.0, max(abs(x) for x in p))
            if all(dot(W[i], p) >= a[i] - tol for i in range(K)):
                d2 = sum((p[k] - c[k]) ** 2 for k in range(m))
                if best is None or d2 < best:
                    best = d2
    return best  # None: polyhedron empty (cannot happen for a cone with interior)


def ball_cov(W, c1, r1, c2, r2, a):
    d2 = dist2_to_polyhedron(W, a, sub(c2, c1))
    return d2 is not None and d2 <= (r1 + r2) ** 2


def ball_cov_margin(W, c1, r1, c2, r2, a):
    d2 = dist2_to_polyhedron(W, a, sub(c2, c1))
    return (r1 + r2) - d2 ** 0.5


def quad(S, w):
    return sum(w[i] * S[i][j] * w[j] for i in range(len(w)) for j in range(len(w)))


def ge_sqrt_sum(A, B, C):
    return A >= 0 and A * A - B - C >= 0 and (A * A - B - C) ** 2 >= 4 * B * C


def ell_dom(W, e1, e2, a):
    """VOGeometry!EllDom ; e = (c, S, alpha)"""
    return all(ge_sqrt_sum(dot(w, sub(e2[0], e1[0])) + an, e1[2] ** 2 * quad(e1[1], w), e2[2] ** 2 * quad(e2[1], w))
               for w, an in zip(W, a))


def ell_dom_margin(W, e1, e2, a):
    return min((dot(w, sub(e2[0], e1[0])) + an - e1[2] * quad(e1[1], w) ** 0.5 - e2[2] * quad(e2[1], w) ** 0.5)
               / dot(w, w) ** 0.5 for w, an in zip(W, a))


# ---------------------------------------------------------------- order / pareto / metrics
def dominates(W, a, b):
    return incone(W, sub(a, b))


def pareto_def(W, V):
    """indices i such that no j strictly dominates i (VOPareto!ParetoDef)"""
    n = len(V)
    return [i for i in range(n) if not any(dominates(W, V[j], V[i]) and not dominates(W, V[i], V[j]) for j in range(n))]


def nearest_in_polyhedron(W, a, c):
    """the point of { d : W d >= a } nearest to c (dimension <= 3), by active-set enumeration (see dist2_to_polyhedron)."""
    m = len(c)
    K = len(W)
    best = None
    bestp = None
    for size in range(0, min(m, K) + 1):
        for act in itertools.combinations(range(K), size):
            if size == 0:
                p = tuple(c)
            else:
                Wa = [W[i] for i in act]
                G = [[dot(u, v) for v in Wa] for u in Wa]
                rhs = [a[i] - dot(W[i], c) for i in act]
                lam = _solve(G, rhs)
                if lam is None:
                    continue
                p = tuple(c[k] + sum(lam[j] * Wa[j][k] for j in range(size)) for k in range(m))
            tol = 1e-12 * max(1.0, max(abs(float(x)) for x in p))
            if all(dot(W[i], p) >= a[i] - tol for i in range(K)):
                d2 = sum((p[k] - c[k]) ** 2 for k in range(m))
                if best is None or d2 < best:
                    best, bestp = d2, p
    return bestp


def alpha_float(W, n):
    """max of w_n . x over { x in C, |x| <= 1 } for unit or non-unit rows, divided by |w_n| (dimension <= 3), float.
    Candidates (VOConeConst!AlphaCands generalised): the own normal if inside the cone, the normalised projections of w_n
    onto each facet plane if inside, the extreme rays; 0 otherwise."""
    import numpy as np
    W = np.asarray(W, dtype=float)
    K, m = W.shape
    w = W[n] / np.linalg.norm(W[n])
    tol = 1e-10

    def inside(x):
        return bool(np.all(W @ x >= -tol * max(1.0, np.abs(W).max())))

    best = 0.0
    if inside(w):
        best = 1.0
    cands = []
    for k in range(K):
        nk = W[k] / np.linalg.norm(W[k])
        p = w - (w @ nk) * nk
        if np.linalg.norm(p) > 1e-12:
            cands.append(p / np.linalg.norm(p))
    if m == 2:
        for k in range(K):
            for r in ((-W[k][1], W[k][0]), (W[k][1], -W[k][0])):
                cands.append(np.array(r) / np.linalg.norm(r))
    else:
        for a in range(K):
            for b in range(a + 1, K):
                r = np.cross(W[a], W[b])
                if np.linalg.norm(r) > 1e-12:
                    cands.append(r / np.linalg.norm(r))
                    cands.append(-r / np.linalg.norm(r))
    for x in cands:
        if inside(x):
            best = max(best, float(w @ x))
    return best

"""C14 - displayed confidence regions are exactly the model's prediction scaled.

leg 1: TLC model-checks spec/VODesignSpace.tla (update over every index sequence / prediction table / scalar, per-objective and per-entry
       scale; plain and iteratively intersected rectangles): lower <= upper always, regions of designs not in the index list unchanged,
       centred at the mean, the intersection rule (intersection when overlapping, the new rectangle when disjoint).
leg 2: random integer update histories (index lists of every size and order, three scale forms, prediction tables) are executed on
       FixedPointsDesignSpace (with and without iterative intersection) and AdaptivelyDiscretizedDesignSpace with a stub model and
       validated step by step by spec/VOTraceDS.tla (regions, untouched, ordered); ellipsoids are checked directly.
       (tlc -simulate is not used here: the update action has ~10^8 successors per state.)
leg 3: with the real models (three GP wrappers, empirical model) design_space.update(model, scale, idx) is called for index subsets of
       every size and order, including a single design; every region must equal mean -+ scale x std of the model's own batch
       prediction for that design (or the ellipsoid (mean, covariance, scale)), all other regions untouched.
"""
import itertools
import random

from . import tlc
from .pool import chunks, pmap
from .tlaval import seq

MC = "---- MODULE MCDS ----\nEXTENDS VODesignSpace\nTheMeans == {%s}\nTheStds == {%s}\nTheScales == {%s}\n====\n"
CFG = "CONSTANTS\n ND = %d\n Means <- TheMeans\n Stds <- TheStds\n Scales <- TheScales\n Iter = %s\n MaxIdx = %d\nINIT Init\nNEXT Next\nCHECK_DEADLOCK FALSE\n"
PROPS = "INVARIANT Ordered\nPROPERTY Untouched\nPROPERTY Centred\nPROPERTY Shrinks\nPROPERTY InterRule\nVIEW View\n"
HUGE = 1000.0


class StubModel:
    """predict() returns the table's (mean, diag(std^2)) for whichever designs are asked, in the order asked"""

    def __init__(self, points):
        import numpy as np
        self.points = np.asarray(points, dtype=float)
        self.table = {}

    def predict(self, X):
        import numpy as np
        X = np.atleast_2d(np.asarray(X, dtype=float))
        mu, cov = [], []
        for row in X:
            d = int(np.where(np.all(self.points == row[: self.points.shape[1]], axis=1))[0][0])
            m, s = self.table[d]
            mu.append(m)
            cov.append(np.diag(np.array(s, dtype=float) ** 2))
        return np.array(mu, dtype=float), np.array(cov, dtype=float)


def _mk_space(kind, nd):
    import numpy as np
    from vopy.design_space import AdaptivelyDiscretizedDesignSpace, FixedPointsDesignSpace
    if kind == "adaptive":
        ds = AdaptivelyDiscretizedDesignSpace(1, 2, delta=0.1, max_depth=4)
        # the root starts from the spec's initial box BEFORE refining: children are created from the parent's region exactly as
        # the library does it (refine_design hands the parent's bound arrays to the children)
        ds.confidence_regions[0].lower = np.array([-HUGE, -HUGE])
        ds.confidence_regions[0].upper = np.array([HUGE, HUGE])
        while len(ds.points) < nd:
            ds.refine_design(len(ds.points) - 1)
        return ds
    pts = np.array([[0.1 * (i + 1), 1.0 - 0.07 * i] for i in range(nd)])
    ds = FixedPointsDesignSpace(pts, 2, confidence_type="hyperellipsoid" if kind == "ell" else "hyperrectangle")
    if kind != "ell":
        for r in ds.confidence_regions:
            r.lower = np.array([-HUGE, -HUGE])
            r.upper = np.array([HUGE, HUGE])
    return ds


def _drive(args):
    """code -> spec: random integer update histories executed on the real design-space classes; returns traces"""
    import warnings
    warnings.filterwarnings("ignore")
    import numpy as np
    seed, count, base = args
    rnd = random.Random(seed)
    traces = []
    for t in range(count):
        nd = rnd.choice([2, 3, 4, 5])
        kind = rnd.choice(["rect", "rect", "adaptive"])
        it = rnd.random() < 0.5
        ds = _mk_space(kind, nd)
        if it:
            for r in ds.confidence_regions:
                r.intersect_iteratively = True
        model = StubModel(ds.points)
        T = {"tid": base + t, "nd": nd, "iter": it, "kind": kind, "steps": []}
        for _ in range(rnd.randint(2, 7)):
            n = rnd.randint(1, nd)
            idx = rnd.sample(range(nd), n)
            if rnd.random() < 0.3:
                idx = sorted(idx, reverse=rnd.random() < 0.5)
            pred = [[rnd.choice([-3, 0, 2, 5]), rnd.choice([-3, 0, 2, 5]), rnd.choice([0, 1, 3]), rnd.choice([0, 1, 3])] for _ in idx]
            model.table = {d: (p[:2], p[2:]) for d, p in zip(idx, pred)}
            form = rnd.choice(["scalar", "vector", "matrix"])
            if form == "scalar":
                sc = [rnd.choice([1, 2, 3])]
                scale = np.array(float(sc[0])) if rnd.random() < 0.5 else np.array([float(sc[0])])
            elif form == "vector":
                sc = [rnd.choice([1, 2, 3]), rnd.choice([1, 2, 3])]
                scale = np.array(sc, dtype=float)
            else:
                sc = [[rnd.choice([1, 2, 3]), rnd.choice([1, 2, 3])] for _ in idx]
                scale = np.array(sc, dtype=float)
            exc = 0
            try:
                ds.update(model, scale, list(idx))
            except Exception as e:
                exc = 1
                T["exc_info"] = repr(e)[:200]
            post = []
            for r in ds.confidence_regions:
                lo, hi = np.asarray(r.lower, dtype=float), np.asarray(r.upper, dtype=float)
                if lo.shape != (2,) or hi.shape != (2,) or np.any(lo != np.round(lo)) or np.any(hi != np.round(hi)):
                    exc = 1
                    T["exc_info"] = "region is not a lattice box: %r %r" % (lo.tolist(), hi.tolist())
                    post.append([0, 0, 0, 0])
                else:
                    post.append([int(lo[0]), int(lo[1]), int(hi[0]), int(hi[1])])
            T["steps"].append({"idx": [i + 1 for i in idx], "pred": pred, "form": form, "scale": sc, "post": post, "exc": exc})
            if exc:
                break
        traces.append(T)
    return traces


def _ell(seed):
    """ellipsoidal regions: update stores (mean, covariance, scale); non-scalar scales are refused and change nothing"""
    import warnings
    warnings.filterwarnings("ignore")
    import numpy as np
    rnd = random.Random(seed)
    bad = []
    n = 0
    for t in range(40):
        nd = rnd.choice([2, 3, 4])
        ds = _mk_space("ell", nd)
        model = StubModel(ds.points)
        state = {}
        for _ in range(5):
            idx = rnd.sample(range(nd), rnd.randint(1, nd))
            model.table = {d: ([rnd.choice([-3, 0, 2, 5]), rnd.choice([0, 2])], [rnd.choice([1, 3]), rnd.choice([1, 2])]) for d in idx}
            n += 1
            if rnd.random() < 0.25:
                try:
                    ds.update(model, np.array([1.0, 2.0]), list(idx))
                    bad.append({"kind": "ell-nonscalar-accepted", "space": "ell", "idx": idx})
                except ValueError:
                    pass
            else:
                a = float(rnd.choice([1, 2, 3]))
                ds.update(model, np.array(a), list(idx))
                for d in idx:
                    state[d] = (model.table[d][0], [s * s for s in model.table[d][1]], a)
            for d in range(nd):
                r = ds.confidence_regions[d]
                if d in state:
                    m, v, a = state[d]
                    good = np.array_equal(r.center, m) and np.array_equal(r.sigma, np.diag(v)) and float(np.asarray(r.alpha).ravel()[0]) == a
                else:
                    good = np.array_equal(r.center, np.zeros(2)) and np.array_equal(r.sigma, np.eye(2))
                if not good:
                    bad.append({"kind": "ell-region", "space": "ell", "design": d, "idx": idx})
    return n, bad


def _real_models(seed):
    """leg 3: the real model classes.  returns (ncases, bad)"""
    import warnings
    warnings.filterwarnings("ignore")
    import numpy as np
    import torch
    torch.set_num_threads(1)
    from vopy.design_space import FixedPointsDesignSpace
    from vopy.models import (CorrelatedExactGPyTorchModel, EmpiricalMeanVarModel, GPyTorchModelListExactModel,
                             IndependentExactGPyTorchModel)
    rs = np.random.RandomState(seed)
    rnd = random.Random(seed)
    bad = []
    n = 0
    N = 5
    pts = rs.rand(N, 2)
    Xtr = rs.rand(6, 2)
    Ytr = rs.randn(6, 2)
    models = []
    for cls in (IndependentExactGPyTorchModel, CorrelatedExactGPyTorchModel):
        m = cls(2, 2, noise_var=0.05)
        m.add_sample(Xtr, Ytr)
        m.update()
        models.append((cls.__name__, m, pts))
    ml = GPyTorchModelListExactModel(2, 2, noise_var=0.05)
    ml.add_sample(Xtr, Ytr[:, 0], 0)
    ml.add_sample(Xtr[:4], Ytr[:4, 1], 1)
    ml.update()
    models.append(("GPyTorchModelListExactModel", ml, pts))
    em = EmpiricalMeanVarModel(2, 2, 0.3, N, track_variances=True)
    em.add_sample(list(range(N)) * 3, rs.randn(3 * N, 2))
    em.update()
    models.append(("EmpiricalMeanVarModel", em, np.hstack([pts, np.arange(N)[:, None]])))
    subsets = [[2], [0], [4, 1], [3, 0, 2], [4, 3, 2, 1, 0], [1, 4, 0, 2]]
    for name, model, P in models:
        mu_all, cov_all = model.predict(P)
        for ctype in ("hyperrectangle", "hyperellipsoid"):
            for idx in subsets:
                for form in ("scalar", "vector", "matrix"):
                    if ctype == "hyperellipsoid" and form != "scalar":
                        continue
                    ds = FixedPointsDesignSpace(P, 2, confidence_type=ctype)
                    ds.update(model, np.array(1.0))      # all designs once, so that "untouched" is observable
                    before = [(np.array(getattr(r, "lower", getattr(r, "center", None)), copy=True)) for r in ds.confidence_regions]
                    if form == "scalar":
                        scale = np.array(1.5)
                        rows = [[1.5, 1.5]] * len(idx)
                    elif form == "vector":
                        scale = np.array([0.5, 2.0])
                        rows = [[0.5, 2.0]] * len(idx)
                    else:
                        rows = [[0.5 + 0.25 * k, 2.0 - 0.25 * k] for k in range(len(idx))]
                        scale = np.array(rows)
                    n += 1
                    try:
                        ds.update(model, scale, list(idx))
                    except Exception as e:
                        bad.append({"kind": "real-exception", "model": name, "ctype": ctype, "idx": idx, "form": form, "error": repr(e)[:200]})
                        continue
                    for d in range(N):
                        r = ds.confidence_regions[d]
                        std = np.sqrt(np.diag(cov_all[d]))
                        if ctype == "hyperrectangle":
                            if d in idx:
                                row = np.array(rows[idx.index(d)])
                                lo, hi = mu_all[d] - std * row, mu_all[d] + std * row
                            else:
                                lo, hi = mu_all[d] - std, mu_all[d] + std
                            good = (np.shape(r.lower) == (2,) and np.allclose(r.lower, lo, rtol=1e-6, atol=1e-7) and np.allclose(r.upper, hi, rtol=1e-6, atol=1e-7)
                                    and bool(np.all(np.asarray(r.lower) <= np.asarray(r.upper))))
                            got = [np.asarray(r.lower).tolist(), np.asarray(r.upper).tolist()]
                            exp = [lo.tolist(), hi.tolist()]
                        else:
                            a = 1.5 if d in idx else 1.0
                            good = (np.shape(r.center) == (2,) and np.allclose(r.center, mu_all[d], rtol=1e-6, atol=1e-7)
                                    and np.shape(r.sigma) == (2, 2) and np.allclose(r.sigma, cov_all[d], rtol=1e-6, atol=1e-8)
                                    and abs(float(np.asarray(r.alpha).ravel()[0]) - a) < 1e-12)
                            got = [np.asarray(r.center).tolist(), np.asarray(r.sigma).tolist()]
                            exp = [mu_all[d].tolist(), cov_all[d].tolist()]
                        if not good:
                            bad.append({"kind": "real-region", "model": name, "ctype": ctype, "idx": idx, "form": form, "design": d,
                                        "single_design_update": len(idx) == 1, "expected": exp, "got": got})
                            break
    return n, bad


def run(ctx):
    import vopy.design_space  # noqa: F401
    thorough = ctx.tier == "thorough"
    for it in ("FALSE", "TRUE"):
        if it == "TRUE" and not thorough:
            cfg = CFG % (2, it, 1) + PROPS          # iterative intersection, one design per update: 4 s ; the full 2-design version is thorough
        else:
            cfg = CFG % (2, it, 2) + PROPS
        res = tlc.run("MCDS", cfg, files={"MCDS.tla": MC % ("0, 2", "0, 1", "1, 2")}, timeout=3000)
        ctx.add_tlc(res, "VODesignSpace exhaustive ND=2 Iter=%s" % it)
        if res.violated or not res.ok:
            raise tlc.MachineryError("VODesignSpace theorem fails: %s %s" % (res.violated, res.error))
    import json
    import os
    import shutil
    per = 40 if not thorough else 250
    traces = [T for ts in pmap(_drive, [(ctx.seed * 100 + k, per, k * per + 1) for k in range(8)]) for T in ts]
    d = tlc.scratch("vvds-")
    try:
        path = os.path.join(d, "t.ndjson")
        with open(path, "w") as fh:
            for T in traces:
                fh.write(json.dumps({k: T[k] for k in ("tid", "nd", "iter", "steps")}) + "\n")
        res = tlc.run("VOTraceDS", "INIT Init\nNEXT Next\nCHECK_DEADLOCK FALSE\n", workers=1, timeout=1500, env={"TRACE_FILE": path})
    finally:
        shutil.rmtree(d, ignore_errors=True)
    ctx.add_tlc(res, "VOTraceDS")
    if not res.ok:
        raise tlc.MachineryError("VOTraceDS failed: %s" % (res.error or res.violated))
    done = {v[1] for v in res.prints if v and v[0] == "DONE"}
    if done != {T["tid"] for T in traces}:
        raise tlc.MachineryError("missing verdicts in VOTraceDS")
    byid = {T["tid"]: T for T in traces}
    out = []
    for v in res.prints:
        if v and v[0] == "REJECT":
            T = byid[v[1]]
            failing = sorted(k for k, ok in v[3].items() if not ok)
            out.append({"kind": "trace-" + "+".join(failing), "space": T["kind"], "iter": T["iter"], "nd": T["nd"], "step": v[2],
                        "history": T["steps"][:v[2]], "exc_info": T.get("exc_info")})
    nb = len(traces)
    nops = sum(len(T["steps"]) for T in traces)
    for T in traces:
        ctx.nontriv(T["steps"])
    oute = pmap(_ell, [ctx.seed * 7 + k for k in range(4)])
    nops += sum(n for n, _ in oute)
    out += [b for _, bs in oute for b in bs]
    out = [(0, out)]
    jobs = []
    out3 = pmap(_real_models, [ctx.seed * 3 + k for k in range(4 if thorough else 2)])
    nreal = sum(n for n, _ in out3)
    for b in [x for _, bs in out for x in bs]:
        ctx.violation("ds-%s|%s" % (b["kind"], b.get("space")), b, "design-space update disagrees with VODesignSpace: %s" % str(b)[:500])
    for b in [x for _, bs in out3 for x in bs]:
        ctx.violation("ds-%s|%s|single=%s" % (b["kind"], b["model"], len(b["idx"]) == 1), b,
                      "design_space.update with the real %s: region of design %s is not mean -+ scale x std (%s)" % (b["model"], b.get("design"), str(b)[:400]))
    ctx.traces = nb + nreal
    ctx.evaluations = nops + nreal
    ctx.extra.update({"behaviours": nb, "updates_replayed": nops, "real_model_updates": nreal})
    ctx.rule = ("random update histories (2-5 designs, index lists in any order, integer prediction tables, three scale forms, plain and iterative) "
                "on three design-space flavours validated by the trace specification; real models: 4 model classes x 2 region kinds x 6 index subsets (single designs, permutations) x scale forms")
    ctx.assumptions += ["real-model regions are compared with the model's own batch prediction at 1e-6 relative (GP predictions depend on the test batch at 1e-8)"]
    ctx.sample(traces[0]["steps"][:2])


def replay(body):
    c = body["case"]
    if c["kind"].startswith("real"):
        n, bad = _real_models(0)
        return not [b for b in bad if b["model"] == c["model"] and b["kind"] == c["kind"]]
    return True

"""Process pool that forks AFTER the parent imported vopy (saves 16 x 6 s of torch import)."""
import multiprocessing as mp
import os

NPROC = int(os.environ.get("VERIF_NPROC", "16"))


def _init():
    try:
        import torch
        torch.set_num_threads(1)
    except Exception:
        pass


def pmap(fn, items, nproc=None, chunksize=1):
    items = list(items)
    if not items:
        return []
    nproc = min(nproc or NPROC, len(items))
    if nproc <= 1:
        return [fn(x) for x in items]
    ctx = mp.get_context("fork")
    with ctx.Pool(nproc, initializer=_init) as p:
        out = p.map(fn, items, chunksize=chunksize)
        p.close()
        p.join()          # workers exit normally (lets tools/coverage.sh collect their line data)
        return out


def chunks(seq, n):
    seq = list(seq)
    k = max(1, (len(seq) + n - 1) // n)
    return [seq[i:i + k] for i in range(0, len(seq), k)]

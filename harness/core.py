"""Shared plumbing: context of one check run, evidence, violations, known findings, replay files."""
import hashlib
import json
import os
import sys
import time
import traceback

ROOT = os.path.dirname(os.path.dirname(os.path.abspath(__file__)))
EVID = os.environ.get("VERIF_EVIDENCE_DIR") or os.path.join(ROOT, "evidence")     # diagnostic runs (seed tests, coverage) write elsewhere
REPLAY = os.path.join(ROOT, "replay")
KF_PATH = os.path.join(ROOT, "known_findings.json")


def load_known():
    try:
        with open(KF_PATH) as fh:
            return json.load(fh)
    except FileNotFoundError:
        return {"findings": [], "fixed": []}


def _jsonable(o):
    import fractions
    try:
        import numpy as np
    except Exception:  # pragma: no cover
        np = None
    if isinstance(o, dict):
        return {str(k): _jsonable(v) for k, v in o.items()}
    if isinstance(o, (list, tuple)):
        return [_jsonable(v) for v in o]
    if isinstance(o, (set, frozenset)):
        return sorted((_jsonable(v) for v in o), key=lambda x: json.dumps(x, sort_keys=True))
    if isinstance(o, fractions.Fraction):
        return [o.numerator, o.denominator]
    if np is not None:
        if isinstance(o, np.ndarray):
            return o.tolist()
        if isinstance(o, (np.integer,)):
            return int(o)
        if isinstance(o, (np.floating,)):
            return float(o)
        if isinstance(o, (np.bool_,)):
            return bool(o)
    return o


class Ctx:
    def __init__(self, pid, tier, seed):
        self.pid = pid
        self.tier = tier
        self.seed = seed
        self.t0 = time.time()
        self.states = 0
        self.transitions = 0
        self.traces = 0  # traces / cases validated against the implementation
        self.evaluations = 0
        self.nontrivial = set()  # hashes of distinct non-trivial cases
        self.samples = []
        self.violations = []
        self.known_hits = []
        self.extra = {}
        self.assumptions = []
        self.rule = ""
        self.tlc_runs = []
        self.exhaustive = None
        self.known = load_known()
        self.trusted = ["TLC 2026.09.04 (tla2tools 1.8.0)", "harness/tlaval.py value parser", "projection functions in harness/"]

    # ---- accounting
    def add_tlc(self, res, label):
        self.states += res.distinct
        self.transitions += res.generated
        self.tlc_runs.append({"label": label, "generated": res.generated, "distinct": res.distinct,
                              "wall_s": round(res.wall, 2), "ok": res.ok, "violated": res.violated})

    def sample(self, obj, cap=6):
        if len(self.samples) < cap:
            self.samples.append(_jsonable(obj))

    def nontriv(self, key):
        self.nontrivial.add(hashlib.sha1(json.dumps(_jsonable(key), sort_keys=True).encode()).hexdigest()[:16])

    def count(self, name, n=1):
        self.extra[name] = self.extra.get(name, 0) + n

    # ---- violations
    def violation(self, signature, case, message):
        """signature: stable string identifying *what* fails (matched against known_findings.json)."""
        for kf in self.known.get("findings", []):
            if kf.get("property") == self.pid and kf.get("signature") == signature:
                if signature not in [k["signature"] for k in self.known_hits]:
                    self.known_hits.append(kf)
                    print("KNOWN-FINDING: property=%s %s" % (self.pid, kf.get("what", signature)))
                return False
        body = {"property": self.pid, "signature": signature, "message": message, "case": _jsonable(case)}
        h = hashlib.sha1(json.dumps(body, sort_keys=True).encode()).hexdigest()[:12]
        d = os.path.join(REPLAY, self.pid)
        os.makedirs(d, exist_ok=True)
        path = os.path.join(d, h + ".json")
        with open(path, "w") as fh:
            json.dump(body, fh, indent=1, sort_keys=True)
        if len(self.violations) < 25:
            print("VIOLATION property=%s replay=%s" % (self.pid, path))
            print("  " + message[:600])
        self.violations.append({"signature": signature, "replay": path, "message": message[:300]})
        return True

    # ---- evidence
    def finish(self, level="model_checking"):
        wall = time.time() - self.t0
        cov = {
            "states": max(self.states, 0),
            "transitions": max(self.transitions, 0),
            "traces_validated_against_impl": self.traces,
            "samples": self.samples or [{"note": "no sample recorded"}],
            "evaluations": max(self.evaluations, 1),
            "distinct_nontrivial": len(self.nontrivial),
            "rule": self.rule,
            "tlc_runs": self.tlc_runs,
            "trusted_base": self.trusted,
            "known_findings_hit": [k.get("signature") for k in self.known_hits],
        }
        if self.exhaustive is not None:
            cov["exhaustive"] = bool(self.exhaustive)
        cov.update(_jsonable(self.extra))
        ev = {
            "property_id": self.pid,
            "tier": self.tier,
            "seed": int(self.seed),
            "level": level,
            "coverage": cov,
            "assumptions": self.assumptions,
            "wall_s": round(wall, 2),
            "violations": len(self.violations),
        }
        os.makedirs(EVID, exist_ok=True)
        with open(os.path.join(EVID, self.pid + ".json"), "w") as fh:
            json.dump(ev, fh, indent=1)
        return 1 if self.violations else 0


def raised_in_code_under_test(tb_text):
    """'module.function' if the innermost frames of the traceback are inside the library under test (vopy) or in third-party code it
    called, with no harness frame after them; None otherwise."""
    import re
    tb_text = tb_text.split("The above exception was the direct cause")[0]          # the root cause (a pool worker's remote traceback comes first)
    frames = re.findall(r'File "([^"]+)", line \d+, in (\S+)', tb_text)
    last_lib = last_harness = -1
    for k, (f, fn) in enumerate(frames):
        if "/vopy/" in f and "/verif/" not in f:
            last_lib = k
        elif "/verif/harness/" in f:
            last_harness = k
    if last_lib > last_harness >= 0:
        f, fn = frames[last_lib]
        return "%s.%s" % (os.path.basename(f)[:-3], fn)
    return None


def main_for(run_fn, replay_fn, pid, argv):
    """Common CLI: check <ID> [quick|thorough] [--replay PATH]"""
    tier = os.environ.get("VERIF_TIER", "quick")
    replay = None
    args = list(argv)
    while args:
        a = args.pop(0)
        if a in ("quick", "thorough"):
            tier = a
        elif a == "--replay":
            replay = args.pop(0)
    seed = int(os.environ.get("VERIF_SEED", "0") or 0)
    from .tlc import MachineryError
    if replay:
        with open(replay) as fh:
            body = json.load(fh)
        try:
            ok = replay_fn(body)
        except MachineryError as e:
            print("MACHINERY-ERROR", e)
            return 2
        print("replay: property %s on this tree" % ("HOLDS" if ok else "VIOLATED"))
        if not ok:
            print("VIOLATION property=%s replay=%s" % (pid, replay))
        return 0 if ok else 1
    ctx = Ctx(pid, tier, seed)
    try:
        run_fn(ctx)
    except MachineryError as e:
        print("MACHINERY-ERROR property=%s %s" % (pid, e))
        traceback.print_exc()
        return 2
    except Exception as e:
        tb = "".join(traceback.format_exception(type(e), e, e.__traceback__))      # includes the remote traceback of pool workers
        where = raised_in_code_under_test(tb)
        if where is None:       # harness bug: never a violation
            print("MACHINERY-ERROR property=%s unexpected %r" % (pid, e))
            traceback.print_exc()
            return 2
        # the library itself raised on an input for which the specification has an answer: that is the code's behaviour, not ours
        ctx.violation("exception-in-library|%s|%s" % (where, type(e).__name__), {"kind": "exception-in-library", "where": where, "error": repr(e)[:300],
                      "traceback": tb[-3000:]}, "the library raised %r in %s while the check was exercising it (an input the specification answers)" % (e, where))
    rc = ctx.finish()
    print("%s %s: states=%d transitions=%d impl_cases=%d nontrivial=%d violations=%d known=%d wall=%.1fs" % (
        pid, tier, ctx.states, ctx.transitions, ctx.traces, len(ctx.nontrivial), len(ctx.violations),
        len(ctx.known_hits), time.time() - ctx.t0))
    return rc

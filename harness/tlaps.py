"""TLA+ proof system (tlapm) runner: unbounded theorems about the specification's operators (spec/proofs/*.tla).
A proof is re-checked from scratch (--cleanfp) in a scratch directory that is removed afterwards."""
import os
import re
import shutil
import subprocess
import tempfile

from . import tlc

STDLIB = "/opt/veriftools/tlapm/lib/tlapm/stdlib"
SPEC = os.path.join(os.path.dirname(os.path.dirname(os.path.abspath(__file__))), "spec")


def prove(module, timeout=900):
    """returns the number of proof obligations discharged; raises MachineryError if any fails"""
    d = tempfile.mkdtemp(prefix="vopy-tlaps-")
    try:
        for f in os.listdir(SPEC):
            if f.endswith(".tla"):
                shutil.copy(os.path.join(SPEC, f), d)
        shutil.copy(os.path.join(SPEC, "proofs", module + ".tla"), d)
        try:
            p = subprocess.run(["tlapm", "--cleanfp", "--threads", "8", "-I", STDLIB, module + ".tla"], cwd=d, stdout=subprocess.PIPE, stderr=subprocess.STDOUT,
                               timeout=timeout, text=True)
        except subprocess.TimeoutExpired:
            raise tlc.MachineryError("tlapm timed out on %s" % module)
        out = p.stdout
        m = re.search(r"All (\d+) obligations? proved", out)
        if p.returncode != 0 or not m:
            raise tlc.MachineryError("tlapm could not prove %s: %s" % (module, out[-800:]))
        return int(m.group(1))
    finally:
        shutil.rmtree(d, ignore_errors=True)

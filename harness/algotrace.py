"""Recording real executions of the VOPy algorithm classes as traces for spec/VOTraceAlgo.tla.

Nothing inside /repo is modified: observation goes through public attributes (S, P, U, round, sample_count,
total_cost, design_space.confidence_regions, model data) and a recording proxy installed as algorithm.problem.
"""
import json
import os
import time
import traceback
import warnings

import numpy as np

from . import georel as GR
from . import refeval as R
from . import tlc

warnings.filterwarnings("ignore")

# --------------------------------------------------------------------------------------------- datasets
_REGISTERED = {}


def register_dataset(name, X, Y, keep_raw_out=False):
    """Make get_dataset_instance(name) return a Dataset with these inputs / objective values."""
    import vopy.datasets.dataset as dsmod
    X = np.asarray(X, dtype=float)
    Y = np.asarray(Y, dtype=float)

    def __init__(self):
        self.in_data = X.copy()
        self.out_data = Y.copy()
        dsmod.Dataset.__init__(self)
        if keep_raw_out:
            self.out_data = Y.copy()

    cls = type(name, (dsmod.Dataset,), {"_in_dim": X.shape[1], "_out_dim": Y.shape[1], "_cardinality": len(X),
                                        "__init__": __init__})
    setattr(dsmod, name, cls)
    _REGISTERED[name] = cls
    return cls


def std_datasets():
    """small deterministic datasets: distinct inputs, a few near-ties and chains in the objectives"""
    if "VVD2a" in _REGISTERED:
        return
    rng = np.random.RandomState(12345)
    X = rng.rand(10, 2)
    Y = np.array([[0.0, 1.0], [0.3, 0.9], [0.6, 0.7], [0.8, 0.4], [1.0, 0.0], [0.2, 0.2], [0.55, 0.65], [0.79, 0.39],
                  [0.1, 0.95], [0.5, 0.1]])
    register_dataset("VVD2a", X, Y)
    X = rng.rand(14, 3)
    Y = rng.randn(14, 2)
    register_dataset("VVD2b", X, Y)
    X = rng.rand(9, 2)
    Y = rng.randn(9, 3)
    Y[3] = Y[2] + 0.05
    register_dataset("VVD3a", X, Y)
    X = rng.rand(4, 2)
    Y = np.array([[0.0, 1.0], [1.0, 0.0], [0.4, 0.4], [0.9, 0.9]])
    register_dataset("VVD2tiny", X, Y)
    # near-twins in the INPUT space: designs 2 and 7 are 2e-6 apart (further than the 1e-6 tolerance of locate_points, closer than a
    # relative tolerance of 1e-5 would separate): every point must still be mapped to its own design
    Xn = rng.rand(10, 2)
    Xn[7] = Xn[2] + 2e-6
    register_dataset("VVD2near", Xn, rng.randn(10, 2))
    # twenty designs: ids beyond the 8 slots of a small hash set, so that late-run subsets iterate in an order that is not the sorted one
    rng2 = np.random.RandomState(777)
    register_dataset("VVD2c", rng2.rand(20, 2), rng2.randn(20, 2))


def make_order(spec):
    from vopy.order import (ComponentwiseOrder, ConeOrder3D, ConeOrder3DIceCream, ConeTheta2DOrder, PolyhedralConeOrder)
    from vopy.ordering_cone import OrderingCone
    kind = spec[0]
    if kind == "orth":
        return ComponentwiseOrder(spec[1])
    if kind == "theta":
        return ConeTheta2DOrder(spec[1])
    if kind == "cone3d":
        return ConeOrder3D(spec[1])
    if kind == "ice":
        return ConeOrder3DIceCream(spec[1], spec[2])
    if kind == "Wint":      # integer rows, not normalised: exact arithmetic in lattice replays
        return PolyhedralConeOrder(OrderingCone(np.array(spec[1], dtype=float)))
    if kind == "W":
        W = np.array(spec[1], dtype=float)
        W = W / np.linalg.norm(W, axis=1, keepdims=True)
        return PolyhedralConeOrder(OrderingCone(W))
    raise ValueError(spec)


# --------------------------------------------------------------------------------------------- proxy
class RecProblem:
    """Recording proxy around algorithm.problem: delegates everything, logs every evaluate() call."""

    def __init__(self, inner, points, on_call=None):
        object.__setattr__(self, "_inner", inner)
        object.__setattr__(self, "_points", np.asarray(points, dtype=float))
        object.__setattr__(self, "_on_call", on_call)
        object.__setattr__(self, "calls", [])
        object.__setattr__(self, "_serial", [0])

    def __getattr__(self, k):
        return getattr(self._inner, k)

    def ids_of(self, x):
        x = np.atleast_2d(np.asarray(x, dtype=float))
        d = self._points.shape[1]
        out = []
        for row in x:
            hit = np.where(np.all(self._points == row[:d], axis=1))[0]
            out.append(int(hit[0]) if len(hit) else -1)
        return out

    def evaluate(self, x, *args, **kw):
        pre = self._on_call() if self._on_call else None
        x0 = np.array(x, copy=True)
        y = self._inner.evaluate(x, *args, **kw)
        unchanged = bool(np.array_equal(x0, np.asarray(x)))
        ev_idx = args[0] if args else kw.get("evaluation_index")
        ids = self.ids_of(x0)
        yy = np.asarray(y, dtype=float)
        rows = []
        for k, d in enumerate(ids):
            self._serial[0] += 1
            if ev_idx is None:
                rows.append({"design": d, "obj": 0, "obs": self._serial[0], "y": np.atleast_1d(yy[k]).tolist()})
            else:
                o = int(ev_idx) if np.isscalar(ev_idx) else int(np.asarray(ev_idx)[k])
                rows.append({"design": d, "obj": o + 1, "obs": self._serial[0], "y": [float(np.atleast_1d(yy[k])[0])]})
        self.calls.append({"rows": rows, "input_unchanged": unchanged, "pre": pre})
        return y


class HeteroProblem:
    """dataset problem with PER-DESIGN noise levels (property C03: heteroscedastic problems)."""

    def __init__(self, inner, seed):
        self._inner = inner
        n = len(inner.dataset.in_data)
        rs = np.random.RandomState(seed)
        self._std = np.sqrt(inner.noise_var) * rs.choice([0.2, 1.0, 3.0], size=n)
        self._rs = rs

    def __getattr__(self, k):
        return getattr(self._inner, k)

    def evaluate(self, x, noisy=True):
        from vopy.utils import get_closest_indices_from_points
        x = np.atleast_2d(x)
        f = self._inner.evaluate(x, noisy=False)
        if not noisy:
            return f
        idx = get_closest_indices_from_points(x, self._inner.dataset.in_data, squared=True)
        return f + self._rs.normal(size=f.shape) * self._std[idx][:, None]


class ScriptedModel:
    """A Model whose posterior is scripted: lattice boxes / balls / ellipsoids chosen by the harness, so that the real
    algorithm classes can be pushed through region configurations no GP would produce (identical, touching, nested,
    re-growing regions).  predict() returns mean = centre and covariance = diag(half-width^2) (or the scripted Sigma)."""

    def __init__(self, points, m, kind, G, seed, nidx_col=False, wander=False, iso=False, dup=False):
        self.points = np.asarray(points, dtype=float)
        self.m, self.kind, self.G = m, kind, G
        self.rs = np.random.RandomState(seed)
        n = len(self.points)
        self.truth = self.rs.randint(0, G + 1, size=(n, m))
        self.iso = iso                # one common width for every design and objective per round (Auer's default mode)
        self.wander = wander          # arbitrary (not truth-containing) posteriors: the means drift between rounds
        self.t = 0
        self.lo = np.zeros((n, m))
        self.hi = np.zeros((n, m))
        self.sig = np.array([np.eye(m) for _ in range(n)])
        self.input_dim = self.points.shape[1]
        self.output_dim = m
        self.added = []
        # dup: some designs are exact twins of others (same truth, same posterior in every round): ties and mutual relations
        self.clones = {}
        if dup and n >= 4:
            ids = [int(i) for i in np.random.RandomState(seed + 4242).permutation(n)]
            for a in range(max(1, n // 4)):
                self.clones[ids[2 * a + 1]] = ids[2 * a]
                self.truth[ids[2 * a + 1]] = self.truth[ids[2 * a]]
        self.advance()

    def advance(self):
        """draw the posterior of the next round"""
        self.t += 1
        n = len(self.points)
        wmax = max(1, self.G - (self.t - 1) // 2)
        wiso = int(self.rs.randint(0, wmax + 1))
        for i in range(n):
            for k in range(self.m):
                w = wiso if self.iso else int(self.rs.randint(0, wmax + 1))
                off = int(self.rs.randint(0, w + 1))
                self.lo[i, k] = self.truth[i, k] - off
                if self.wander and self.rs.rand() < 0.5:
                    self.lo[i, k] += int(self.rs.randint(-2, 3))
                self.hi[i, k] = self.lo[i, k] + w
            if self.kind == "ell":
                a, d = int(self.rs.randint(1, 4)), int(self.rs.randint(1, 4))
                b = int(self.rs.randint(-1, 2))
                if a * d - b * b <= 0:
                    b = 0
                S = np.eye(self.m)
                S[0, 0], S[1, 1], S[0, 1], S[1, 0] = a, d, b, b
                self.sig[i] = S
        for dst, src in self.clones.items():
            self.lo[dst], self.hi[dst], self.sig[dst] = self.lo[src].copy(), self.hi[src].copy(), self.sig[src].copy()

    def ids(self, X):
        X = np.atleast_2d(np.asarray(X, dtype=float))
        d = self.points.shape[1]
        out = []
        for row in X:
            hit = np.where(np.all(self.points == row[:d], axis=1))[0]
            out.append(int(hit[0]))
        return out

    def predict(self, test_X):
        idx = self.ids(test_X)
        if self.kind in ("rect", "auer"):
            means = (self.lo[idx] + self.hi[idx]) / 2
            covs = np.array([np.diag(((self.hi[i] - self.lo[i]) / 2) ** 2) for i in idx])
            if self.kind == "auer":
                covs = np.array([np.eye(self.m) for _ in idx])
        elif self.kind == "ball":
            means = (self.lo[idx]).copy()
            covs = np.array([np.eye(self.m) for _ in idx])
        else:
            means = (self.lo[idx]).copy()
            covs = self.sig[idx].copy()
        return means, covs

    def add_sample(self, *a, **k):
        self.added.append(a)

    def update(self):
        pass

    def train(self):
        pass

    def clear_data(self):
        pass


def build_scripted(cfg):
    """construct the real algorithm class with the GP factory replaced (in the algorithm module's namespace) by a
    function returning the scripted model, and the confidence schedule overridden on the instance to the constant 1."""
    import importlib
    sc = cfg["script"]
    a = cfg["alg"]
    modname = {"PaVeBa": "paveba", "PaVeBaGP": "paveba_gp", "PaVeBaPartialGP": "paveba_partial_gp", "VOGP": "vogp",
               "EpsilonPAL": "epal", "Auer": "auer"}[a]
    mod = importlib.import_module("vopy.algorithms." + modname)
    holder = {}

    def fake_factory(*args, **kw):
        X = kw.get("X")
        Y = kw.get("Y")
        holder["model"] = ScriptedModel(X, Y.shape[1], sc["kind"], sc["G"], cfg.get("seed", 0), wander=sc.get("wander", False), iso=sc.get("iso", False), dup=sc.get("dup", False))
        return holder["model"]

    saved = {}
    for name in ("get_gpytorch_model_w_known_hyperparams", "get_gpytorch_modellist_w_known_hyperparams"):
        if hasattr(mod, name):
            saved[name] = getattr(mod, name)
            setattr(mod, name, fake_factory)
    try:
        alg = build(cfg)
    finally:
        for name, f in saved.items():
            setattr(mod, name, f)
    m = alg.m
    if "model" not in holder:   # PaVeBa / Auer build an EmpiricalMeanVarModel themselves: replace it
        pts = alg.design_space.points
        holder["model"] = ScriptedModel(pts, m, sc["kind"], sc["G"], cfg.get("seed", 0), wander=sc.get("wander", False), iso=sc.get("iso", False), dup=sc.get("dup", False))
        alg.model = holder["model"]
    model = holder["model"]
    if a in ("VOGP", "EpsilonPAL"):
        alg.compute_beta = lambda: np.ones(m)
    elif a in ("PaVeBaGP", "PaVeBaPartialGP"):
        alg.compute_alpha = lambda: np.float64(sc.get("alpha", 1.0))
    elif a == "PaVeBa":
        rr = np.random.RandomState(cfg.get("seed", 0) + 77)
        radii = rr.randint(1, max(2, sc["G"] // 2 + 1) + 1, size=200)      # the common radius changes from round to round
        alg.compute_radius = lambda: np.float64(radii[alg.round % 200])
    elif a == "Auer":
        def beta_rows():
            idx = list(alg.S)
            return np.array([(model.hi[i] - model.lo[i]) / 2 for i in idx]).reshape(len(idx), m)
        alg.compute_beta = beta_rows
    return alg, model


# --------------------------------------------------------------------------------------------- building
ALG_FAM = {"PaVeBa": "paveba", "PaVeBaGP": "paveba", "PaVeBaPartialGP": "paveba", "VOGP": "vogp", "EpsilonPAL": "vogp",
           "Auer": "auer", "NaiveElimination": "flat", "DecoupledGP": "flat"}


def build(cfg):
    import vopy.algorithms as A
    from vopy.utils import set_seed
    std_datasets()
    set_seed(cfg.get("seed", 0))
    a = cfg["alg"]
    order = make_order(cfg["order"]) if "order" in cfg else None
    eps, delta, nv, ds = cfg.get("eps", 0.1), cfg.get("delta", 0.1), cfg.get("noise", 0.01), cfg["dataset"]
    cc = cfg.get("contraction", 32)
    if a == "PaVeBa":
        alg = A.PaVeBa(eps, delta, ds, order, nv, conf_contraction=cc)
    elif a == "PaVeBaGP":
        alg = A.PaVeBaGP(eps, delta, ds, order, nv, conf_contraction=cc, type=cfg.get("type", "IH"), batch_size=cfg.get("batch", 1))
    elif a == "PaVeBaPartialGP":
        alg = A.PaVeBaPartialGP(eps, delta, ds, order, nv, conf_contraction=cc, costs=cfg.get("costs"), cost_budget=cfg.get("budget"),
                                confidence_type=cfg.get("confidence_type", "hyperrectangle"), batch_size=cfg.get("batch", 1))
    elif a == "VOGP":
        alg = A.VOGP(eps, delta, ds, order, nv, conf_contraction=cc, batch_size=cfg.get("batch", 1))
    elif a == "EpsilonPAL":
        alg = A.EpsilonPAL(eps, delta, ds, nv, conf_contraction=cc, batch_size=cfg.get("batch", 1))
    elif a == "Auer":
        alg = A.Auer(eps, delta, ds, nv, conf_contraction=cc, use_empirical_beta=cfg.get("empirical", False))
    elif a == "NaiveElimination":
        alg = A.NaiveElimination(eps, delta, ds, order, nv, L=cfg.get("L"))
    elif a == "DecoupledGP":
        alg = A.DecoupledGP(ds, order, nv, cfg["budget"], cfg["costs"], batch_size=cfg.get("batch", 1))
    else:
        raise ValueError(a)
    return alg


def dataset_points(alg, cfg):
    from vopy.datasets import get_dataset_instance
    return get_dataset_instance(cfg["dataset"])


# --------------------------------------------------------------------------------------------- projection
def proj_state(alg, cfg):
    fam = ALG_FAM[cfg["alg"]]
    S = sorted(int(i) + 1 for i in getattr(alg, "S", ())) if fam != "flat" else []
    P = sorted(int(i) + 1 for i in alg.P) if fam != "flat" else []
    U = sorted(int(i) + 1 for i in getattr(alg, "U", ())) if fam == "paveba" else []
    cost = getattr(alg, "total_cost", 0)
    return {"S": S, "P": P, "U": U, "round": int(alg.round), "samples": int(alg.sample_count), "cost": cost}


def _intcost(c):
    if abs(c - round(c)) > 1e-9:
        raise tlc.MachineryError("non-integer cost in a driven configuration: %r" % c)
    return int(round(c))


def dense_ranks(vals, rtol=1e-12):
    vals = np.asarray(vals, dtype=float)
    order = np.argsort(vals, kind="stable")
    ranks = np.zeros(len(vals), dtype=int)
    r = 0
    prev = None
    for idx in order:
        v = vals[idx]
        if prev is None or abs(v - prev) > rtol * max(1.0, abs(v), abs(prev)):
            r += 1
            prev = v
        ranks[idx] = r
    return ranks.tolist()


def model_rows(alg, cfg):
    """what the model currently holds, as a list of (design, obj, tuple(values)) in insertion order per container"""
    m = alg.model if hasattr(alg, "model") else None
    out = []
    if m is None:
        smp = getattr(alg, "samples", None)       # NaiveElimination keeps its observations itself: (K, t, m)
        if isinstance(smp, np.ndarray) and smp.ndim == 3:
            for d in range(smp.shape[0]):
                for k in range(smp.shape[1]):
                    out.append((d, 0, tuple(float(x) for x in smp[d, k]), ("n", d, k)))
        return out
    pts = np.asarray(dataset_points(alg, cfg).in_data, dtype=float)

    def ident(x):
        hit = np.where(np.all(np.isclose(pts, np.asarray(x, dtype=float)[: pts.shape[1]], rtol=0, atol=0), axis=1))[0]
        return int(hit[0]) if len(hit) else -1

    if hasattr(m, "design_samples"):
        for d, rows in enumerate(m.design_samples):
            for k, r in enumerate(np.asarray(rows)):
                out.append((d, 0, tuple(float(x) for x in r), ("e", d, k)))
    elif isinstance(getattr(m, "train_inputs", None), list):
        for o in range(len(m.train_inputs)):
            X = m.train_inputs[o].numpy(force=True)
            Y = m.train_targets[o].numpy(force=True)
            for k in range(len(X)):
                out.append((ident(X[k]), o + 1, (float(Y[k]),), ("l", o, k)))
    elif getattr(m, "train_inputs", None) is not None:
        X = m.train_inputs.numpy(force=True)
        Y = m.train_targets.numpy(force=True)
        for k in range(len(X)):
            out.append((ident(X[k]), 0, tuple(float(x) for x in Y[k]), ("g", k)))
    return out


def model_synced(alg):
    """the wrapped gpytorch module is conditioned on exactly what the wrapper reports (update() was called)"""
    m = getattr(alg, "model", None)
    if m is None or not hasattr(m, "model") or m.model is None:
        return True
    try:
        if isinstance(m.train_inputs, list):
            for o, sub in enumerate(m.model.models):
                if not (np.array_equal(sub.train_inputs[0].numpy(force=True), m.train_inputs[o].numpy(force=True))
                        and np.array_equal(sub.train_targets.numpy(force=True), m.train_targets[o].numpy(force=True))):
                    return False
            return True
        ti = m.model.train_inputs[0].numpy(force=True)
        tt = m.model.train_targets.numpy(force=True)
        return bool(np.array_equal(ti.reshape(len(m.train_inputs), -1), m.train_inputs.numpy(force=True))
                    and np.array_equal(tt.reshape(m.train_targets.shape), m.train_targets.numpy(force=True)))
    except Exception:
        return False


# --------------------------------------------------------------------------------------------- relations
def slack_for(alg, cfg, cone):
    """the epsilon-slack of the algorithm, computed from the CONFIGURED epsilon (not read back from the object)"""
    a = cfg["alg"]
    eps = cfg.get("eps", 0.1)
    if a in ("PaVeBa", "PaVeBaGP", "PaVeBaPartialGP"):
        alpha = np.asarray(alg.order.ordering_cone.alpha, dtype=float).flatten()
        return alpha * eps
    if a == "VOGP":
        z = R.nearest_in_polyhedron(cone.Wl, [1.0] * cone.K, tuple([0.0] * cone.m))
        z = np.array(z, dtype=float)
        return eps * z / np.linalg.norm(z)
    if a == "EpsilonPAL":
        return np.full(cone.m, eps)
    return None


def relations(alg, cfg, pre, post):
    """tri-valued relations over the regions displayed after the step, restricted to the pairs the step reads.
    returns (rel, amb) with keys a, b, c -> lists of [i, j] (1-based ids)."""
    fam = ALG_FAM[cfg["alg"]]
    rel = {"a": [], "b": [], "c": []}
    amb = {"a": [], "b": [], "c": []}
    if fam == "flat":
        return rel, amb
    regs = alg.design_space.confidence_regions
    S0 = [i - 1 for i in pre["S"]]
    P0 = [i - 1 for i in pre["P"]]
    U0 = [i - 1 for i in pre["U"]]
    P2 = [i - 1 for i in post["P"]]

    def put(key, i, j, v):
        if v is True:
            rel[key].append([i + 1, j + 1])
        elif v is None:
            amb[key].append([i + 1, j + 1])

    if fam == "auer":
        c = {i: np.asarray(regs[i].center, dtype=float) for i in S0}
        b = {i: (np.asarray(regs[i].upper, dtype=float) - np.asarray(regs[i].lower, dtype=float)) / 2 for i in S0}
        eps = cfg.get("eps", 0.1)
        for i in S0:
            for j in S0:
                if i == j:
                    continue
                gt, mc, nd = GR.auer_rel(c[i], b[i], c[j], b[j], eps)
                put("a", i, j, gt)
                put("b", i, j, mc)
                put("c", j, i, nd)      # nd <<j,i>> : M(j,i) <= b_i + b_j   (AuerNewP reads <<j,i>>)
        return rel, amb
    cone = GR.Cone(alg.order.ordering_cone.W)
    slack = slack_for(alg, cfg, cone)
    from vopy.confidence_region import RectangularConfidenceRegion
    rect = isinstance(regs[0], RectangularConfidenceRegion)
    if rect:
        B = {}
        box = lambda i: B.setdefault(i, GR.box_of(regs[i]))
    else:
        E = {}
        ell = lambda i: E.setdefault(i, GR.ell_of(regs[i]))
    if fam == "paveba":
        A0 = sorted(set(S0) | set(U0))
        colsb = sorted(set(A0) | set(P2))
        for i in S0:
            for j in A0:
                if i == j:
                    continue
                if rect:
                    put("a", i, j, GR.rect_dom(cone, box(i), box(j), 0.0))
                else:
                    put("a", i, j, GR.ell_dom(cone, ell(i), ell(j), 0.0))
            for j in colsb:
                if i == j:
                    continue
                if rect:
                    if len(slack) != cone.m:
                        raise ValueError("rect slack of size K != m")
                    put("b", i, j, GR.rect_cov(cone, box(i), box(j), slack))
                else:
                    ei, ej = ell(i), ell(j)
                    if GR.is_identity(ei[1]) and GR.is_identity(ej[1]):
                        put("b", i, j, GR.ball_cov(cone, ei, ej, slack))
                    else:
                        put("b", i, j, GR.ell_cov(cone, ei, ej, slack))
        return rel, amb
    # vogp family (rectangles only)
    W0 = sorted(set(S0) | set(P0))
    for j in W0:
        for i in W0:
            if i != j:
                put("c", j, i, GR.rect_pdom(cone, box(j), box(i)))
    for i in S0:
        for j in W0:
            if i == j:
                continue
            put("a", i, j, GR.rect_dom(cone, box(i), box(j), slack))
            put("b", i, j, GR.rect_cov(cone, box(i), box(j), slack))
    return rel, amb


# --------------------------------------------------------------------------------------------- acquisition
_THOMPSON = []


def install_thompson_recorder():
    """DecoupledGP builds its acquisition inside evaluating(): the class is looked up in the module namespace at call time, so a
    recording subclass there sees every forward() call (values are stochastic and cannot be recomputed afterwards)."""
    import vopy.algorithms.decoupled as dmod
    base = dmod.ThompsonEntropyDecoupledAcquisition
    if getattr(base, "_vv_recording", False):
        return

    class Rec(base):
        _vv_recording = True

        def forward(self, x):
            v = super().forward(x)
            _THOMPSON.append((self.evaluation_index, np.array(x, copy=True), np.array(v, copy=True)))
            return v

    dmod.ThompsonEntropyDecoupledAcquisition = Rec


def acq_pre_evaluate(alg, cfg):
    """called by the proxy at the moment of evaluate(), i.e. before the new samples reach the model"""
    a = cfg["alg"]
    try:
        if a == "PaVeBaGP":
            A = sorted(set(alg.S) | set(alg.U))
            _, var = alg.model.predict(alg.design_space.points[A])
            vals = np.sum(np.diagonal(var, axis1=-2, axis2=-1), axis=-1)
            return {"cand": [[i + 1, 0] for i in A], "vals": np.atleast_1d(vals).tolist()}
        if a == "PaVeBaPartialGP":
            A = sorted(set(alg.S) | set(alg.U))
            _, var = alg.model.predict(alg.design_space.points[A])
            d = np.diagonal(var, axis1=-2, axis2=-1).reshape(len(A), -1)
            cand, vals = [], []
            for k, i in enumerate(A):
                for o in range(d.shape[1]):
                    cand.append([i + 1, o + 1])
                    v = d[k, o]
                    if alg.costs is not None:
                        v = v / alg.costs[o]
                    vals.append(float(v))
            return {"cand": cand, "vals": vals}
        if a == "DecoupledGP" and cfg.get("batch", 1) == 1 and _THOMPSON:
            # the stochastic Thompson-entropy values, recorded at forward() by the recording subclass (first call per objective)
            seen = {}
            for ev, x, v in _THOMPSON:
                if ev not in seen and len(x) == len(alg.points):
                    seen[ev] = v
            del _THOMPSON[:]
            if len(seen) == alg.m:
                cand, vals = [], []
                for i in range(len(alg.points)):
                    for o in range(alg.m):
                        cand.append([i + 1, o + 1])
                        vals.append(float(seen[o][i]))
                return {"cand": cand, "vals": vals}
    except Exception as e:  # the acquisition could not be recomputed: the argmax clause is skipped, never failed
        return {"error": repr(e)}
    return None


def acq_post(alg, cfg, post):
    if cfg["alg"] in ("VOGP", "EpsilonPAL") and post["S"]:
        W = sorted(set(post["S"]) | set(post["P"]))
        regs = alg.design_space.confidence_regions
        vals = [float(np.linalg.norm(np.asarray(regs[i - 1].upper, dtype=float) - np.asarray(regs[i - 1].lower, dtype=float))) for i in W]
        return {"cand": [[i, 0] for i in W], "vals": vals}
    return None


def flat_pareto(alg, cfg, n):
    """NaiveElimination / DecoupledGP: the reported P and the strict-dominance relation of the current mean estimates (tri-valued)"""
    out = {"P": [], "sd": [], "amb": []}
    try:
        if cfg["alg"] == "NaiveElimination":
            if alg.samples.shape[1] == 0:
                return out
            mu = alg.samples.mean(axis=-2)
        else:
            mu = np.asarray(alg.model.predict(alg.points)[0], dtype=float)
        P = [int(i) + 1 for i in np.asarray(alg.P).reshape(-1)] if not isinstance(alg.P, set) else sorted(int(i) + 1 for i in alg.P)
        cone = GR.Cone(alg.order.ordering_cone.W)
        t = GR.TAU * GR._scale(mu)
        for j in range(n):
            for i in range(n):
                if i == j:
                    continue
                d = mu[j] - mu[i]
                fw = float((cone.W @ d / cone.norms).min())      # >= 0 : j dominates i
                bw = float((cone.W @ (-d) / cone.norms).min())   # >= 0 : i dominates j
                dom = True if fw > t else (False if fw < -t else None)
                rev = True if bw > t else (False if bw < -t else None)
                if dom is True and rev is False:
                    out["sd"].append([j + 1, i + 1])          # j strictly dominates i
                elif dom is False or rev is True:
                    pass
                else:
                    out["amb"].append([j + 1, i + 1])
        out["P"] = sorted(P)
        if len(out["amb"]) > 8:
            out = {"P": [], "sd": [], "amb": [], "skipped": True}
            out["P"] = sorted({i for i in range(1, n + 1)})          # not judged: make the clause trivially true
            out["sd"], out["amb"] = [], []
    except Exception as e:
        out["error"] = repr(e)[:100]
    return out


def regions_are_current(alg, cfg, smodel, pre):
    """scripted runs: after the step every design that was ACTIVE when the round was modelled displays exactly this round's posterior
    (the accuracy theorems assume that all active designs are re-modelled every round)"""
    fam = ALG_FAM[cfg["alg"]]
    active = set(pre["S"]) | (set(pre["U"]) if fam == "paveba" else set(pre["P"]) if fam == "vogp" else set())
    for i in active:
        reg = alg.design_space.confidence_regions[i - 1]
        lo, hi = smodel.lo[i - 1], smodel.hi[i - 1]
        if hasattr(reg, "lower"):
            if not (np.array_equal(np.asarray(reg.lower, dtype=float), lo) and np.array_equal(np.asarray(reg.upper, dtype=float), hi)):
                return False
        else:
            if not np.array_equal(np.asarray(reg.center, dtype=float), lo):
                return False
            if smodel.kind == "ell" and not np.array_equal(np.asarray(reg.sigma, dtype=float), smodel.sig[i - 1]):
                return False
    return True


def poison_discarded(alg, cfg, post):
    """FRAME check: the regions of designs that have left S and are not in P are never read again (specification: every relation the
    round consults is between members of S, U, P).  After every step those regions are overwritten with a far-away box that would
    dominate and cover everything; a decision that still consults one (a stale cache, a witness drawn from the wrong set) then
    deviates from the specification on the very next step."""
    fam = ALG_FAM[cfg["alg"]]
    keep = set(post["S"]) | (set(post["P"]) if fam != "auer" else set())
    big = 1000.0 if (post["round"] % 2 == 0) else -1000.0
    for i, reg in enumerate(alg.design_space.confidence_regions):
        if (i + 1) in keep:
            continue
        m = alg.m
        if hasattr(reg, "lower"):
            reg.lower = np.full(m, big)
            reg.upper = np.full(m, big + 1.0)
        else:
            reg.center = np.full(m, big)


def install_phase_frames(alg, cfg):
    """FRAME check per phase (PaVeBa family): discarding() and pareto_updating() read the regions of S u U only (VOAlgo!PavebaDisc,
    PavebaNewP); the stale regions of the other members of P are read by useful_updating() alone.  While one of the two phases runs,
    the regions of P minus U are replaced by a far-away box that would dominate and cover everything (or be dominated by everything, on odd
    rounds) and put back afterwards: correct code cannot notice, code that takes witnesses or coverers from all of P deviates at once."""
    if ALG_FAM[cfg["alg"]] != "paveba":
        return
    for name in ("discarding", "pareto_updating"):
        inner = getattr(alg, name, None)
        if not callable(inner):
            continue

        def wrapped(*a, _inner=inner, **k):
            regs = alg.design_space.confidence_regions
            big = 1000.0 if alg.round % 2 == 0 else -1000.0
            saved = {}
            for i in [i for i in alg.P if i not in alg.U]:
                r = regs[i]
                if hasattr(r, "lower"):
                    saved[i] = ("box", r.lower, r.upper)
                    r.lower, r.upper = np.full(alg.m, big), np.full(alg.m, big + 1.0)
                else:
                    saved[i] = ("ell", r.center)
                    r.center = np.full(alg.m, big)
            try:
                return _inner(*a, **k)
            finally:
                for i, sv in saved.items():
                    if sv[0] == "box":
                        regs[i].lower, regs[i].upper = sv[1], sv[2]
                    else:
                        regs[i].center = sv[1]
        setattr(alg, name, wrapped)


def region_contains(reg, mu):
    mu = np.asarray(mu, dtype=float)
    if hasattr(reg, "lower"):
        return bool(np.all(np.asarray(reg.lower) <= mu) and np.all(mu <= np.asarray(reg.upper)))
    d = mu - np.asarray(reg.center, dtype=float)
    a = float(np.asarray(reg.alpha).ravel()[0])
    return bool(d @ np.linalg.solve(np.asarray(reg.sigma, dtype=float), d) <= a * a * (1 + 1e-12))


def truth_relations(alg, cfg, truth, P, valid):
    """relations of the scripted TRUTH for the accuracy clause (exact integers on the left, the code's epsilon on the right)"""
    n = len(truth)
    fam = ALG_FAM[cfg["alg"]]
    eps = cfg.get("eps", 0.1)
    out = {"judge": bool(valid), "P": list(P), "wd": [], "ex": [], "sd": [], "mo": []}
    if fam == "paveba" and hasattr(alg.design_space.confidence_regions[0], "lower"):
        # rectangles take alpha*eps as an OBJECTIVE-SPACE shift: that only has the library's meaning for unit facet normals
        rows = np.linalg.norm(np.asarray(alg.order.ordering_cone.W, dtype=float), axis=1)
        if not np.allclose(rows, 1.0, atol=1e-12):
            out["judge"] = False
    if fam == "auer":
        W = np.eye(truth.shape[1])
        AE = np.full(len(W), eps)
        slack = None
    else:
        W = np.asarray(alg.order.ordering_cone.W, dtype=float)
        if fam == "paveba":
            AE = np.asarray(alg.order.ordering_cone.alpha, dtype=float).flatten() * eps      # per-facet gap bound alpha_n * eps (rows as given)
            slack = None
        else:
            cone = GR.Cone(W)
            slack = np.asarray(slack_for(alg, cfg, cone), dtype=float)
            AE = None
    tol = 1e-9
    for j in range(n):
        for i in range(n):
            if i == j:
                continue
            d = (truth[j] - truth[i]).astype(float)
            wdv = W @ d
            if fam in ("paveba", "auer"):
                if np.all(wdv >= 0):
                    out["wd"].append([j + 1, i + 1])
                if np.all(wdv > AE + tol):
                    out["ex"].append([j + 1, i + 1])
                elif np.all(wdv > AE - tol):
                    out["judge"] = False           # exactly at the gap bound: not judged
            else:
                ws = W @ (d + slack)
                if np.all(ws >= -tol):
                    out["sd"].append([j + 1, i + 1])
                    if not np.all(ws >= tol):
                        out["judge"] = False
                wm = W @ (d - slack)
                if np.all(wm > tol):
                    out["mo"].append([j + 1, i + 1])
                elif np.all(wm > -tol):
                    out["judge"] = False
    return out


# --------------------------------------------------------------------------------------------- recording a run
def record(cfg):
    """run the algorithm described by cfg, return the trace dict (never raises for algorithm errors)."""
    t0 = time.time()
    np.seterr(all="ignore")
    smodel = None
    if cfg["alg"] == "DecoupledGP":
        install_thompson_recorder()
        del _THOMPSON[:]
    try:
        if cfg.get("script"):
            alg, smodel = build_scripted(cfg)
        else:
            alg = build(cfg)
    except Exception as e:
        return {"tid": cfg["tid"], "cfg": cfg, "build_error": repr(e), "tb": traceback.format_exc()[-1500:], "steps": []}
    ds = dataset_points(alg, cfg)
    if cfg.get("hetero"):
        alg.problem = HeteroProblem(alg.problem, cfg.get("seed", 0))
    proxy = RecProblem(alg.problem, ds.in_data, on_call=lambda: acq_pre_evaluate(alg, cfg))
    alg.problem = proxy
    n = len(ds.in_data)
    m = ds.out_dim
    costs = cfg.get("costs")
    T = {"tid": cfg["tid"], "alg": cfg["alg"], "n": n, "m": m, "batch": int(cfg.get("batch", 1)),
         "costs": [int(c) for c in costs] if costs else [], "budget": int(cfg["budget"]) if cfg.get("budget") is not None else -1,
         "L": int(getattr(alg, "L", 0)) if cfg["alg"] == "NaiveElimination" else 0, "steps": []}
    notes = {"either_pairs": 0, "input_changed": 0, "acq_errors": 0}
    pess_calls = []
    if cfg["alg"] in ("VOGP", "EpsilonPAL") and callable(getattr(alg, "compute_pessimistic_set", None)):
        inner_cps = alg.compute_pessimistic_set

        def cps(*a, **k):          # observation only: what discarding() was handed as the pessimistic Pareto set
            r = inner_cps(*a, **k)
            try:
                pess_calls.append(sorted(int(i) + 1 for i in r))
            except Exception:
                pass
            return r
        alg.compute_pessimistic_set = cps
    if smodel is not None and cfg["script"].get("poison"):
        install_phase_frames(alg, cfg)
    done_seen = 0
    valid_history = True
    for stepno in range(cfg.get("max_steps", 60)):
        pre = proj_state(alg, cfg)
        if smodel is not None and stepno > 0:
            smodel.advance()
        rows_before = model_rows(alg, cfg)
        ncalls = len(proxy.calls)
        del pess_calls[:]
        exc = 0
        ret = False
        try:
            ret = bool(alg.run_one_step())
        except Exception as e:
            exc = 1
            T["exc_info"] = {"step": stepno + 1, "error": repr(e)[:300], "where": traceback.format_exc()[-600:]}
        post = proj_state(alg, cfg)
        step = {"pre": pre, "post": post, "ret": ret, "exc": exc, "gate": True,
                "rel": {"a": [], "b": [], "c": []}, "amb": {"a": [], "b": [], "c": []},
                "req": [], "rows": 0, "acq": {"cand": [], "rank": []}, "acqchk": False,
                "data": {"gained": [], "returned": []}, "flat": {"P": [], "sd": [], "amb": []}}
        try:
            pre["cost"], post["cost"] = _intcost(pre["cost"]), _intcost(post["cost"])
        except tlc.MachineryError:
            raise
        if not exc:
            calls = proxy.calls[ncalls:]
            returned = []
            for c in calls:
                if not c["input_unchanged"]:
                    notes["input_changed"] += 1
                for r in c["rows"]:
                    step["req"].append([r["design"] + 1, r["obj"]])
                    returned.append(r)
            step["rows"] = sum(len(c["rows"]) for c in calls)
            # acquisition
            acq = None
            for c in calls:
                if c["pre"]:
                    acq = c["pre"]
            if acq is None:
                acq = acq_post(alg, cfg, post)
            if acq and "error" in acq:
                notes["acq_errors"] += 1
                acq = None
            if acq:
                # GP predictive variances depend on the test batch at the 1e-8 level: near-ties share a rank
                step["acq"] = {"cand": acq["cand"], "rank": dense_ranks(acq["vals"], rtol=(1e-9 if cfg["alg"] in ("VOGP", "EpsilonPAL") else 1e-5))}
                step["acqchk"] = True
            elif cfg["alg"] in ("PaVeBa", "Auer", "NaiveElimination"):
                step["acqchk"] = True
            # relations
            try:
                rel, amb = relations(alg, cfg, pre, post)
            except ValueError as e:
                rel, amb = {"a": [], "b": [], "c": []}, {"a": [], "b": [], "c": []}
                T.setdefault("rel_errors", []).append(repr(e))
            if pess_calls and pre["S"]:
                # the pessimistic set must be exactly the designs of S u P that no other one pessimistically dominates; pairs whose
                # geometric answer is not robust (exact ties) are taken from the code's own pairwise comparison
                cx = []
                try:
                    from vopy.confidence_region import confidence_region_check_dominates as _cd
                    regs_ = alg.design_space.confidence_regions
                    for j, i in amb["c"]:
                        if bool(_cd(alg.order, regs_[j - 1], regs_[i - 1])):
                            cx.append([j, i])
                    step["pess"] = {"has": True, "set": pess_calls[-1], "cx": cx}
                except Exception:
                    pass
            namb = sum(len(v) for v in amb.values())
            notes["either_pairs"] += namb
            if namb > 8:      # too many undecided pairs for the existential: the set clauses of this step are not judged
                step["skipsets"] = True
                amb = {"a": [], "b": [], "c": []}
            step["rel"], step["amb"] = rel, amb
            # data that reached the model
            rows_after = model_rows(alg, cfg)
            before_keys = {r[3] for r in rows_before}
            gained = [r for r in rows_after if r[3] not in before_keys]
            pool = list(returned)
            g = []
            for (d, o, y, _) in gained:
                oid = 0
                for r in pool:
                    if r["design"] == d and r["obj"] == o and tuple(r["y"]) == tuple(y):
                        oid = r["obs"]
                        pool.remove(r)
                        break
                g.append([d + 1, o, oid])
            step["data"] = {"gained": sorted(g), "returned": sorted([r["design"] + 1, r["obj"], r["obs"]] for r in returned),
                            "synced": model_synced(alg)}
            if smodel is not None:     # the scripted model stores nothing: the data clause is judged on real-model runs only
                step["data"] = {"gained": step["data"]["returned"], "returned": step["data"]["returned"], "synced": True}
        if not exc and ALG_FAM[cfg["alg"]] == "flat":
            step["flat"] = flat_pareto(alg, cfg, n)
        if smodel is not None and not exc and not (pre["S"] == []):
            step["modeled"] = regions_are_current(alg, cfg, smodel, pre)
            try:      # designs whose displayed region is a single point (zero width in every objective): bookkeeping for accuracy_runs
                regs_ = alg.design_space.confidence_regions
                step["points"] = [i for i in pre["S"] if hasattr(regs_[i - 1], "lower") and np.array_equal(regs_[i - 1].lower, regs_[i - 1].upper)]
            except Exception:
                step["points"] = []
        if smodel is not None and not exc and cfg["script"].get("poison"):
            poison_discarded(alg, cfg, post)
        if smodel is not None and not exc and not smodel.wander:
            active = set(pre["S"]) | (set(pre["U"]) if ALG_FAM[cfg["alg"]] == "paveba" else set(pre["P"]) if ALG_FAM[cfg["alg"]] == "vogp" else set())
            if not (pre["S"] == [] ):
                for i in active:
                    if not region_contains(alg.design_space.confidence_regions[i - 1], smodel.truth[i - 1]):
                        valid_history = False
        T["steps"].append(step)
        if exc:
            break
        if ret:
            done_seen += 1
            if done_seen > cfg.get("extra_idle", 2):
                break
    if smodel is not None and not smodel.wander and T["steps"] and not T["steps"][-1]["exc"] and ALG_FAM[cfg["alg"]] != "flat":
        last = T["steps"][-1]["post"]
        if last["S"] == []:
            T["final"] = truth_relations(alg, cfg, smodel.truth, last["P"], valid_history)
            T["truth"] = [[int(x) for x in row] for row in smodel.truth]
            notes["valid_history"] = valid_history
    T["notes"] = notes
    T["wall"] = round(time.time() - t0, 2)
    T["cfg"] = cfg
    return T


# --------------------------------------------------------------------------------------------- validation by TLC
TRACE_KEYS = ("tid", "alg", "n", "m", "batch", "costs", "budget", "L", "steps", "final")
STEP_KEYS = ("pre", "post", "ret", "exc", "gate", "rel", "amb", "req", "rows", "acq", "acqchk", "data", "skipsets", "flat", "modeled", "pess")


def to_ndjson(traces, path):
    with open(path, "w") as fh:
        for T in traces:
            T.setdefault("final", {"judge": False, "P": [], "wd": [], "ex": [], "sd": [], "mo": []})
            t = {k: T[k] for k in TRACE_KEYS}
            t["steps"] = []
            for s in T["steps"]:
                s2 = {k: s[k] for k in STEP_KEYS if k in s}
                s2.setdefault("skipsets", False)
                s2.setdefault("modeled", True)
                s2.setdefault("pess", {"has": False, "set": [], "cx": []})
                s2["flat"] = {k: s.get("flat", {}).get(k, []) for k in ("P", "sd", "amb")}
                s2["data"] = {"gained": s["data"]["gained"], "returned": s["data"]["returned"], "synced": bool(s["data"].get("synced", True))}
                t["steps"].append(s2)
            fh.write(json.dumps(t) + "\n")


def validate(ctx, traces, label="VOTraceAlgo"):
    """returns list of (tid, step, failing clause names, clause record)"""
    traces = [T for T in traces if T["steps"]]
    if not traces:
        return []
    d = tlc.scratch("vvtr-")
    try:
        path = os.path.join(d, "traces.ndjson")
        to_ndjson(traces, path)
        cfg = "INIT Init\nNEXT Next\nCHECK_DEADLOCK FALSE\n"
        res = tlc.run("VOTraceAlgo", cfg, workers=1, timeout=1800, env={"TRACE_FILE": path}, heap="8g")
    finally:
        import shutil
        shutil.rmtree(d, ignore_errors=True)
    ctx.add_tlc(res, label)
    if not res.ok:
        raise tlc.MachineryError("trace validation failed to run: %s" % (res.error or res.violated))
    done = {}
    rejects = []
    for v in res.prints:
        if v and v[0] == "DONE":
            done[v[1]] = v[2]
        elif v and v[0] == "REJECT":
            failing = sorted(k for k, ok in v[3].items() if ok is False)
            rejects.append((v[1], v[2], failing, dict(v[3])))
    for T in traces:
        if done.get(T["tid"]) != len(T["steps"]):
            raise tlc.MachineryError("no verdict for trace %s (%s)" % (T["tid"], T["alg"]))
    return rejects

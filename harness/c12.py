"""C12 - cone orders are their cones' preorders; bundled cones have the stated geometry.

leg 1: TLC checks, for EVERY integer cone matrix with entries in -E..E (K = 2 and 3 rows), on the lattice -G..G:
       reflexive, transitive, closed under addition, translation- and scale-invariant, antisymmetric iff pointed;
       and for the theta-cone family (tan(theta/2) = p/q) that 'within theta/2 of the diagonal' equals the two facet
       inequalities of the integer rows ((p-q, p+q), (p+q, p-q)).
leg 2: the dumped table (W -> lattice vectors inside) is replayed into OrderingCone.is_inside (single and batched) and
       PolyhedralConeOrder.dominates; bundled cones: ComponentwiseOrder = orthant; ConeTheta2DOrder(2 atan(p/q)) membership
       on non-boundary lattice directions and rows proportional (positively) to the integer rows, both branches of get_2d_w;
       ConeOrder3D rows = unit multiples of the integer matrices and contain the diagonal; ice-cream Gram matrix equals
       the rational formula (K in {3,4,6}, cot(theta) = p/q) and every normal makes the angle 90 - theta with a common axis.
"""
import concurrent.futures as cf
import itertools
import math
from fractions import Fraction as Fr

from . import tlc
from .pool import chunks, pmap
from .tlaval import to_tla

PQS = [(p, q) for p in range(1, 7) for q in range(1, 7) if math.gcd(p, q) == 1]
CFG = """CONSTANTS
 E = %(E)d
 K = %(K)d
 G = %(G)d
 Part = "%(part)s"
 PQ <- ThePQ
 FirstRows <- TheFirst
INIT Init
NEXT Next
INVARIANT Reflexive
INVARIANT Transitive
INVARIANT AddClosed
INVARIANT TranslInv
INVARIANT ScaleInv
INVARIANT Antisym
INVARIANT PointedAgree
INVARIANT ThetaIsCone
INVARIANT ThetaDiag
INVARIANT ThetaSym
"""


def _table(ctx, part, E, K, G, nsplit):
    rows = [(a, b) for a in range(-E, E + 1) for b in range(-E, E + 1)]
    parts = chunks(rows, nsplit) if part == "order" else [rows[:1]]
    out = []

    def one(first):
        mc = ("---- MODULE MCCone ----\nEXTENDS ConeTable\nThePQ == {%s}\nTheFirst == {%s}\n====\n"
              % (", ".join(to_tla(list(x)) for x in PQS), ", ".join(to_tla(list(x)) for x in first)))
        return tlc.dump_states("MCCone", CFG % dict(E=E, K=K, G=G, part=part), files={"MCCone.tla": mc}, workers=1, timeout=3000)

    with cf.ThreadPoolExecutor(max_workers=8) as ex:
        for res, states in ex.map(one, parts):
            ctx.add_tlc(res, "ConeTable/%s/K=%d/E=%d" % (part, K, E))
            if res.violated or not res.ok:
                raise tlc.MachineryError("ConeTable theorem %s fails (%s)" % (res.violated, res.error))
            out += states
    return out


def _replay_order(rows):
    import numpy as np
    from vopy.order import PolyhedralConeOrder
    from vopy.ordering_cone import OrderingCone
    bad = []
    for W, inside, G in rows:
        order = PolyhedralConeOrder(OrderingCone(np.array(W, dtype=float)))
        cone = order.ordering_cone
        lat = [(x, y) for x in range(-G, G + 1) for y in range(-G, G + 1)]
        exp = [v in inside for v in lat]
        got_b = [bool(b) for b in cone.is_inside(np.array(lat, dtype=float))]
        got_s = [bool(np.all(cone.is_inside(np.array(v, dtype=float)))) for v in lat]
        got_l = [bool(np.all(cone.is_inside(list(v)))) for v in lat[::5]]
        base = np.array([0.5, -1.25])
        got_d = [bool(np.all(order.dominates(np.array(v, dtype=float) * 0.25 + base, base))) for v in lat]
        # the cone matrix as the user may give it (integer ndarray / nested lists, as in the class docstring), fractional vectors
        cone_i = OrderingCone(np.array(W))
        cone_l = OrderingCone([list(r) for r in W])
        got_i = [bool(np.all(cone_i.is_inside(np.array(v, dtype=float) * 0.25))) for v in lat]
        got_l2 = [bool(np.all(cone_l.is_inside(np.array(lat, dtype=float) * 0.25)[k])) for k in range(len(lat))]
        got_di = [bool(np.all(PolyhedralConeOrder(cone_i).dominates(np.array(v, dtype=float) * 0.25 + base, base))) for v in lat]
        # ConeTable!ScaleInv bound to the code: a cone is closed under positive scaling, so the table row holds at every dyadic scale
        # (integer W, dyadic factor: every facet product is exact, however small or large the vectors are)
        tiny, huge = 2.0 ** -50, 2.0 ** 40
        got_t = [bool(b) for b in cone.is_inside(np.array(lat, dtype=float) * tiny)]
        got_h = [bool(np.all(cone.is_inside(np.array(v, dtype=float) * huge))) for v in lat]
        got_dt = [bool(np.all(order.dominates(np.array(v, dtype=float) * tiny + base * tiny, base * tiny))) for v in lat]
        for name, got, e in (("is_inside-batched", got_b, exp), ("is_inside-scale-2^-50", got_t, exp), ("is_inside-scale-2^40", got_h, exp),
                             ("dominates-scale-2^-50", got_dt, exp), ("is_inside-single", got_s, exp), ("is_inside-list", got_l, exp[::5]),
                             ("dominates", got_d, exp), ("is_inside-intW-fractional", got_i, exp), ("is_inside-listW-fractional", got_l2, exp),
                             ("dominates-intW-fractional", got_di, exp)):
            if got != e:
                k = [i for i in range(len(e)) if got[i] != e[i]][0]
                bad.append({"kind": name, "W": W, "vector": (lat if name != "is_inside-list" else lat[::5])[k], "expected": e[k], "got": got[k]})
    return bad


def _bundled(_):
    import numpy as np
    from vopy.order import ComponentwiseOrder, ConeOrder3D, ConeOrder3DIceCream, ConeTheta2DOrder
    bad = []
    n = 0
    # orthant
    for dim in (2, 3, 4, 5):
        o = ComponentwiseOrder(dim)
        pts = np.array(list(itertools.product((-1, 0, 2), repeat=dim)), dtype=float)
        got = o.ordering_cone.is_inside(pts)
        exp = (pts >= 0).all(axis=1)
        n += len(pts)
        if not np.array_equal(got, exp) or not np.array_equal(o.ordering_cone.W, np.eye(dim)):
            bad.append({"kind": "orthant", "dim": dim})
    # 3-D cones
    ints = {"acute": [[1, -2, 4], [4, 1, -2], [-2, 4, 1]], "right": [[1, 0, 0], [0, 1, 0], [0, 0, 1]], "obtuse": [[5, 2, 8], [8, 5, 2], [2, 8, 5]]}
    for name, A in ints.items():
        W = ConeOrder3D(name).ordering_cone.W
        A = np.array(A, dtype=float)
        n += 3
        ok = np.allclose(np.linalg.norm(W, axis=1), 1.0, atol=1e-12) and np.allclose(W * np.linalg.norm(A, axis=1, keepdims=True), A, atol=1e-12)
        ok = ok and bool(np.all(ConeOrder3D(name).ordering_cone.is_inside(np.ones(3))))
        if not ok:
            bad.append({"kind": "cone3d", "name": name, "W": W.tolist()})
    # ice cream: cot(theta) = p/q  =>  Gram_ij = (p^2 cos(dphi) + q^2) / (p^2 + q^2)
    cosK = {3: [Fr(1), Fr(-1, 2), Fr(-1, 2)], 4: [Fr(1), Fr(0), Fr(-1), Fr(0)], 6: [Fr(1), Fr(1, 2), Fr(-1, 2), Fr(-1), Fr(-1, 2), Fr(1, 2)]}
    for K, cs in cosK.items():
        for p, q in [(1, 1), (1, 2), (2, 1), (3, 1), (1, 3), (3, 2), (5, 2)]:
            theta = math.degrees(math.atan2(q, p))
            W = ConeOrder3DIceCream(theta, K).ordering_cone.W
            gram = W @ W.T
            n += K * K
            expg = np.array([[float((p * p * cs[(i - j) % K] + q * q) / Fr(p * p + q * q)) for j in range(K)] for i in range(K)])
            axis = W.sum(axis=0)
            axis = axis / np.linalg.norm(axis)
            ang = np.degrees(np.arccos(np.clip(W @ axis, -1, 1)))
            if not (np.allclose(gram, expg, atol=1e-9) and np.allclose(ang, 90 - theta, atol=1e-7) and W.shape == (K, 3)):
                bad.append({"kind": "icecream", "K": K, "pq": [p, q], "gram": gram.tolist(), "expected": expg.tolist(), "angles": ang.tolist()})
            # the circular cone's axis is inside the polyhedral cone, and a direction at angle > theta from the axis is outside
            if not bool(np.all(ConeOrder3DIceCream(theta, K).ordering_cone.is_inside(axis))):
                bad.append({"kind": "icecream-axis", "K": K, "pq": [p, q]})
    return n, bad


def _invariance(seed):
    """The theorems TranslInv / ScaleInv of ConeTable on the code, for cones whose rows are NOT exactly representable (unit-normalised):
    on a dyadic lattice the difference a - b is exact, so dominates(a, b), dominates(a + t, b + t) for dyadic t, is_inside(a - b),
    and the batched call must agree bit for bit - including pairs whose difference lies exactly on a facet."""
    import itertools
    import numpy as np
    from vopy.order import ComponentwiseOrder, ConeOrder3D, ConeOrder3DIceCream, ConeTheta2DOrder, PolyhedralConeOrder
    from vopy.ordering_cone import OrderingCone
    rs = np.random.RandomState(seed)
    bad = []
    n = 0
    orders = [("componentwise2", ComponentwiseOrder(2), [[1, 0], [0, 1]]), ("componentwise3", ComponentwiseOrder(3), [[1, 0, 0], [0, 1, 0], [0, 0, 1]]),
              ("componentwise4", ComponentwiseOrder(4), None), ("right3d", ConeOrder3D("right"), [[1, 0, 0], [0, 1, 0], [0, 0, 1]]),
              ("acute3d", ConeOrder3D("acute"), [[1, -2, 4], [4, 1, -2], [-2, 4, 1]]), ("obtuse3d", ConeOrder3D("obtuse"), [[5, 2, 8], [8, 5, 2], [2, 8, 5]]),
              ("theta60", ConeTheta2DOrder(60), None), ("theta135", ConeTheta2DOrder(135), None), ("ice45-6", ConeOrder3DIceCream(45, 6), None)]
    for Wi in ([[3, -1], [-1, 2]], [[3, 5], [5, 3]], [[1, 3, -1], [-1, 2, 3], [5, -1, 1]]):
        Wn = np.array(Wi, dtype=float)
        Wn = Wn / np.linalg.norm(Wn, axis=1, keepdims=True)
        orders.append(("int%d" % len(Wi[0]), PolyhedralConeOrder(OrderingCone(Wn)), Wi))
    for name, order, Wint in orders:
        d = order.ordering_cone.W.shape[1]
        lat = [np.array(v, dtype=float) / 4.0 for v in itertools.product(range(-4, 5), repeat=d)]
        diffs = [lat[i] for i in rs.choice(len(lat), size=min(len(lat), 120), replace=False)]
        if Wint is not None:      # make sure exact-boundary differences are present
            bd = [v for v in lat if any(sum(w[k] * v[k] for k in range(d)) == 0 for w in Wint) and np.any(v != 0)]
            diffs += [bd[i] for i in rs.choice(len(bd), size=min(len(bd), 120), replace=False)]
        bases = [np.zeros(d), np.array([0.625, -3.875, -0.5, 2.25][:d]), np.array([1024.5, -7.25, 3.0, -0.125][:d]), -np.array([0.375, 2.125, 40.5, 6.0][:d])]
        A = []
        B = []
        single = []
        onbd = []
        for dv in diffs:
            r0 = bool(np.all(order.ordering_cone.is_inside(dv)))
            for b in bases:
                a = b + dv                      # exact: dyadic numbers of moderate size
                r = bool(np.all(order.dominates(a, b)))
                n += 1
                if r != r0:
                    bad.append({"kind": "translation-invariance", "cone": name, "a": a.tolist(), "b": b.tolist(), "difference": dv.tolist(),
                                "dominates(a,b)": r, "is_inside(a-b) == dominates(diff, 0)": r0})
                A.append(a)
                B.append(b)
                single.append(r)
                # a difference exactly on a facet of a cone with non-representable rows is decided by the rounding of W.x, and a
                # batched product rounds differently from a single one: such pairs are not compared across call forms
                onbd.append(bool(np.min(np.abs(order.ordering_cone.W @ dv)) < 1e-9))
            if not bool(np.all(order.dominates(dv, dv))):
                bad.append({"kind": "reflexive", "cone": name, "a": dv.tolist()})
        try:
            batched = [bool(x) for x in np.asarray(order.dominates(np.array(A), np.array(B))).reshape(-1)]
            if len(batched) != len(single):
                bad.append({"kind": "batched-shape", "cone": name, "pairs": len(single), "decisions": len(batched)})
                continue
            # (N, d) against one vector: one decision per row as well
            nb = len(bases)
            for bi, b in enumerate(bases[:2]):
                rows_b = [i for i in range(len(single)) if i % nb == bi]
                got = [bool(x) for x in np.asarray(order.dominates(np.array([A[i] for i in rows_b]), b)).reshape(-1)]
                if len(got) != len(rows_b):
                    bad.append({"kind": "batched-shape", "cone": name, "form": "(N,d) vs (d,)", "pairs": len(rows_b), "decisions": len(got)})
                    break
                wrong = [i for g, i in zip(got, rows_b) if g != single[i] and not onbd[i]]
                if wrong:
                    k = wrong[0]
                    bad.append({"kind": "batched-vs-single", "cone": name, "form": "(N,d) vs (d,)", "a": A[k].tolist(), "b": B[k].tolist(), "single": single[k], "batched": not single[k]})
                    break
            diff_idx = [i for i in range(len(single)) if batched[i] != single[i] and not onbd[i]]
            if diff_idx:
                k = diff_idx[0]
                bad.append({"kind": "batched-vs-single", "cone": name, "a": A[k].tolist(), "b": B[k].tolist(), "single": single[k], "batched": batched[k]})
        except Exception as e:
            bad.append({"kind": "batched-exception", "cone": name, "error": repr(e)[:200]})
    return n, bad[:40]


def _replay_theta(rows):
    import numpy as np
    from vopy.order import ConeTheta2DOrder
    bad = []
    for (p, q), inside, bd, G in rows:
        theta = 2 * math.degrees(math.atan2(p, q))
        try:      # a caller of the public helper who scribbles on ITS OWN result: cones built afterwards are still the theta-cones
            from vopy.utils import get_2d_w
            w_own = get_2d_w(theta)
            w_own *= -2.0
        except Exception:
            pass
        o = ConeTheta2DOrder(theta)
        W = o.ordering_cone.W
        Wi = np.array([[p - q, p + q], [p + q, p - q]], dtype=float)
        Wi = Wi / np.linalg.norm(Wi, axis=1, keepdims=True)
        if not (np.allclose(W, Wi, atol=1e-9) and np.allclose(np.linalg.norm(W, axis=1), 1.0, atol=1e-12)):
            bad.append({"kind": "theta-rows", "pq": [p, q], "theta": theta, "W": W.tolist(), "expected": Wi.tolist()})
        lat = [(x, y) for x in range(-G, G + 1) for y in range(-G, G + 1)]
        got = o.ordering_cone.is_inside(np.array(lat, dtype=float))
        for v, g in zip(lat, got):
            if v in bd:
                continue
            if bool(g) != (v in inside):
                bad.append({"kind": "theta-membership", "pq": [p, q], "theta": theta, "vector": v, "expected": v in inside, "got": bool(g)})
                break
    return bad


def run(ctx):
    import vopy.order  # noqa: F401
    thorough = ctx.tier == "thorough"
    jobs = [("order", 2, 2, 2, 8), ("order", 1, 3, 2, 4)] + ([("order", 2, 3, 2, 25)] if thorough else [])
    rows = []
    for part, E, K, G, ns in jobs:
        for st in _table(ctx, part, E, K, G, ns):
            rows.append(([list(r) for r in tlc.tlaval.seq(st["cfg"])], {tuple(v) for v in st["ans"]}, G))
    tst = _table(ctx, "theta", 2, 2, 6, 1)
    trow = [((st["cfg"][0], st["cfg"][1]), {tuple(v) for v in st["ans"]["in"]}, {tuple(v) for v in st["ans"]["bd"]}, 6) for st in tst]
    if len(trow) != len(PQS):
        raise tlc.MachineryError("theta table incomplete")
    bad = [b for bs in pmap(_replay_order, chunks(rows, 64)) for b in bs]
    bad += [b for bs in pmap(_replay_theta, chunks(trow, 8)) for b in bs]
    nb, badb = _bundled(0)
    bad += badb
    ni, badi = _invariance(ctx.seed)
    bad += badi
    nb += ni
    for b in bad:
        ctx.violation("cone-%s" % b["kind"], b, "cone geometry mismatch: %s" % str(b)[:400])
    ctx.traces = len(rows) + len(trow)
    ctx.evaluations = len(rows) * 80 + len(trow) * 170 + nb
    for W, inside, G in rows:
        if 1 < len(inside) < (2 * G + 1) ** 2:
            ctx.nontriv(W)
    for (p, q), *_ in trow:
        ctx.nontriv(("theta", p, q))
    ctx.exhaustive = True
    ctx.extra.update({"cone_matrices": len(rows), "theta_cones": len(trow), "bundled_checks": nb})
    ctx.rule = ("every integer cone matrix (entries -2..2 with 2 rows; -1..1 with 3 rows; thorough: -2..2 with 3 rows) against all lattice "
                "vectors -2..2; all theta-cones with tan(theta/2)=p/q, p,q<=6 coprime (19..161 degrees) on lattice -6..6; bundled 3-D cones; "
                "non-trivial = cones that are neither {0}-like nor the whole lattice")
    ctx.sample({"W": rows[37][0], "inside": sorted(rows[37][1])})
    ctx.sample({"theta_pq": trow[3][0], "inside_count": len(trow[3][1]), "boundary": sorted(trow[3][2])})
    ctx.assumptions += ["ice-cream tangency is decided for K in {3,4,6} only (rational cosines)"]


def replay(body):
    c = body["case"]
    if c["kind"].startswith("is_inside") or c["kind"].startswith("dominates"):
        from harness.tlc import run as _r  # noqa: F401
        G = 2
        inside = set()
        lat = [(x, y) for x in range(-G, G + 1) for y in range(-G, G + 1)]
        for v in lat:
            if all(w[0] * v[0] + w[1] * v[1] >= 0 for w in c["W"]):
                inside.add(v)
        return not _replay_order([(c["W"], inside, G)])
    if c["kind"] in ("translation-invariance", "batched-vs-single", "reflexive", "batched-exception", "batched-shape"):
        return not _invariance(0)[1]
    n, bad = _bundled(0)
    return not bad

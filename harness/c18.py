"""C18 - adaptive discretisation tiles the domain; VOGP_AD declares only finest leaves.

leg 1: TLC model-checks spec/VOTree.tla (VOGP_AD over the cell tree with an abstract environment: any discards, any Pareto
       declarations once the gate is open, any refinement order) for 1-3 domain dimensions: active + discarded leaves tile the cube,
       active leaves are interior-disjoint, side length matches depth, depth bounded, declared designs are at the maximum depth,
       the gate latches.
leg 2: behaviours from tlc -simulate are replayed into AdaptivelyDiscretizedDesignSpace.refine_design: returned ids, cells, centre
       points, depths, cardinality and the inherited confidence region are compared after every refinement (dyadic => exact).
leg 3: real VOGP_AD runs on continuous problems in 1-3 dimensions (bundled BraninCurrin and harness-defined problems with a
       depth_max) are recorded per run_one_step() and validated by spec/VOTraceTree.tla: children tile the parent in itertools.product
       order, refined node replaced by its children in the same set, tiling, leaf disjointness, declared-at-max-depth, the gate rule,
       and the run-level accounting clauses (these also serve C06 for VOGP_AD).
"""
import json
import os
import random
import shutil

from . import tlc
from .pool import chunks, pmap
from .tlaval import seq

CFG = """CONSTANTS
 Dim = %d
 MaxDepth = %d
 MaxNodes = %d
INIT Init
NEXT Next
CHECK_DEADLOCK FALSE
"""
INVS = "INVARIANT TypeOK\nINVARIANT Tiling\nINVARIANT LeafDisjoint\nINVARIANT DepthBound\nINVARIANT DeclaredAtMax\nINVARIANT SideMatchesDepth\nPROPERTY GateLatch\n"
OWNER = {"sets": "C02+C03"}
for _c in ("ids", "children", "centres", "inherit", "swap", "leafdisj", "tiling", "depthok", "atmax", "gate"):
    OWNER[_c] = "C18"
for _c in ("nocrash", "idle", "mono", "disjoint", "round", "samples", "ret"):
    OWNER[_c] = "C06"


def _replay_refine(args):
    import warnings
    warnings.filterwarnings("ignore")
    import numpy as np
    from vopy.design_space import AdaptivelyDiscretizedDesignSpace
    behs, dim, D = args
    bad = []
    nref = 0
    scale = float(2 ** (D - 1))
    for b in behs:
        ds = AdaptivelyDiscretizedDesignSpace(dim, 2, delta=0.1, max_depth=D)
        hist = []
        for k in range(1, len(b)):
            act, st = b[k]
            prev = b[k - 1][1]
            if len(seq(st["cells"])) == len(seq(prev["cells"])):
                continue
            par = sorted(set(st["refined"]) - set(prev["refined"]))[0]
            hist.append(par)
            n0 = len(ds.points)
            mark = np.array([0.25 * par, -1.5 * par])
            ds.confidence_regions[par - 1].lower = mark.copy()
            ds.confidence_regions[par - 1].upper = mark + 2.0
            try:
                # both public entry points refine (refine_design is the wrapper, generate_child_designs the worker): mixed use of the two
                kids = ds.refine_design(par - 1) if (len(hist) + par) % 3 else ds.generate_child_designs(par - 1)
            except Exception as e:
                bad.append({"kind": "refine-exception", "dim": dim, "maxdepth": D, "history": hist[:], "error": repr(e)})
                break
            nref += 1
            cells = [[list(iv) for iv in c] for c in seq(st["cells"])]
            depth = list(seq(st["depth"]))
            nk = 2 ** dim
            ok = list(kids) == list(range(n0, n0 + nk)) and ds.cardinality == n0 + nk == len(ds.points) == len(ds.cells) == len(ds.point_depths) == len(ds.confidence_regions)
            why = "ids/cardinality" if not ok else ""
            if ok:
                for j in range(n0, n0 + nk):
                    ec = [[iv[0] / scale, iv[1] / scale] for iv in cells[j]]
                    gc = [[float(x[0]), float(x[1])] for x in ds.cells[j]]
                    if gc != ec:
                        ok, why = False, "cell %d: %s != %s" % (j, gc, ec)
                    elif list(map(float, ds.points[j])) != [(a + c) / 2 for a, c in ec]:
                        ok, why = False, "centre %d" % j
                    elif ds.point_depths[j] != depth[j]:
                        ok, why = False, "depth %d" % j
                    elif not (np.array_equal(ds.confidence_regions[j].lower, mark) and np.array_equal(ds.confidence_regions[j].upper, mark + 2.0)):
                        ok, why = False, "region of child %d is not the parent's" % j
                    if not ok:
                        break
            if not ok:
                bad.append({"kind": "refine", "dim": dim, "maxdepth": D, "history": hist[:], "why": why})
                break
    return nref, bad


def _gate(seed):
    """VOTree!Refine is enabled only below MaxDepth, per design space: should_refine_design (stub model whose numeric criterion always says
    'refine') must answer depth < max_depth along a refinement chain - for several design spaces of the same dimensions but different
    maximum depths living in one process, in both creation orders (state must not leak between instances)."""
    import numpy as np
    from vopy.design_space import AdaptivelyDiscretizedDesignSpace
    rnd = random.Random(seed)

    class Stub:
        def get_lengthscale_and_var(self):
            return np.ones(2), np.ones(2)

        def get_kernel_type(self):
            return "RBF"

        def predict(self, x):
            n = len(np.atleast_2d(x))
            return np.zeros((n, 2)), np.array([np.eye(2) * 1e-24 for _ in range(n)])

    bad, n = [], 0
    for dim in (1, 2, 3):
        for Dseq in ((4, 2, 3, 1), (1, 3, 2, 4), (3, 3, 2)):
            hist = []
            for D in Dseq:
                ds = AdaptivelyDiscretizedDesignSpace(dim, 2, delta=0.1, max_depth=D)
                hist.append(D)
                idx = 0
                for depth in range(1, D + 1):
                    try:
                        got = bool(ds.should_refine_design(Stub(), idx, np.ones(2)))
                    except Exception as e:
                        got = "raised " + repr(e)[:120]
                    n += 1
                    if got != (depth < D) or ds.point_depths[idx] != depth:
                        bad.append({"kind": "depth-gate", "dim": dim, "maxdepth": D, "instances_before": hist[:-1], "depth": depth,
                                    "expected": depth < D, "got": got})
                        break
                    if depth < D:
                        kids = ds.refine_design(idx)
                        idx = kids[rnd.randrange(len(kids))]
    return n, bad


# ---------------------------------------------------------------------------------------------- VOGP_AD runs
def _problem(kind, depth_max=None):
    p = _problem0(kind)
    if depth_max is not None:
        p.depth_max = depth_max
    return p


def _problem0(kind):
    import numpy as np
    from vopy.maximization_problem import BraninCurrin, ContinuousProblem
    if kind == "branin":
        return BraninCurrin(0.01)

    class P1(ContinuousProblem):
        in_dim = 1
        out_dim = 2
        bounds = [(0.0, 1.0)]
        depth_max = 4

        def __init__(self):
            super().__init__(0.01)

        def evaluate_true(self, x):
            return np.stack([np.sin(5 * x[:, 0]), np.cos(4 * x[:, 0])], axis=1)

    class P2(ContinuousProblem):
        in_dim = 2
        out_dim = 2
        bounds = [(0.0, 1.0)] * 2
        depth_max = 3

        def __init__(self):
            super().__init__(0.01)

        def evaluate_true(self, x):
            return np.stack([x[:, 0] - 0.5 * x[:, 1] ** 2, np.sin(3 * x[:, 1]) - x[:, 0]], axis=1)

    class P3(ContinuousProblem):
        in_dim = 3
        out_dim = 2
        bounds = [(0.0, 1.0)] * 3
        depth_max = 2

        def __init__(self):
            super().__init__(0.01)

        def evaluate_true(self, x):
            return np.stack([x[:, 0] + x[:, 1] - x[:, 2], x[:, 2] - x[:, 0] ** 2], axis=1)

    return {"p1": P1, "p2": P2, "p3": P3}[kind]()


def record_ad(cfg):
    import warnings
    warnings.filterwarnings("ignore")
    import numpy as np
    import torch
    torch.set_num_threads(1)
    import vopy.models.gpytorch as gpm
    from vopy.algorithms import VOGP_AD
    from vopy.utils import set_seed
    from . import algotrace as AT
    np.seterr(all="ignore")
    set_seed(cfg["seed"])
    orig = gpm.generate_sobol_samples
    gpm.generate_sobol_samples = lambda dim, n: orig(dim, 48)      # hyper-parameter training set: 48 instead of 512 points
    if cfg.get("warm"):
        # an earlier run in the same process, on a problem of the same dimensions with another maximum depth (not recorded): nothing
        # of it may influence the recorded run
        try:
            w = VOGP_AD(cfg["eps"], 0.1, _problem(cfg["problem"], cfg["warm"]["depth_max"]), AT.make_order(tuple(cfg["order"])), 0.01,
                        conf_contraction=cfg["contraction"])
            for _ in range(cfg["warm"]["steps"]):
                if w.run_one_step():
                    break
        except Exception:
            pass
        set_seed(cfg["seed"])
    prob = _problem(cfg["problem"], cfg.get("depth_max"))
    try:
        alg = VOGP_AD(cfg["eps"], 0.1, prob, AT.make_order(tuple(cfg["order"])), 0.01, conf_contraction=cfg["contraction"])
    except Exception as e:
        return {"tid": cfg["tid"], "cfg": cfg, "build_error": repr(e), "steps": [], "dim": prob.in_dim, "maxdepth": prob.depth_max}
    finally:
        gpm.generate_sobol_samples = orig
    D = prob.depth_max
    dim = prob.in_dim
    sc = 2 ** (D - 1)
    calls = {"n": 0}
    inner = alg.problem.evaluate

    class Proxy:
        def __getattr__(self, k):
            return getattr(prob, k)

        def evaluate(self, x, *a, **k):
            calls["n"] += len(np.atleast_2d(x))
            return inner(x, *a, **k)

    alg.problem = Proxy()
    T = {"tid": cfg["tid"], "dim": dim, "maxdepth": D, "steps": [], "cfg": cfg}
    # FRAME check per phase: epsiloncovering() compares a candidate with the nodes that are active WHEN IT RUNS (S u P after this round's
    # discards, VOAlgo!VogpNewP).  While it runs, the regions of all other nodes - discarded earlier or in this very round - are replaced by a
    # far-away box that would cover everything, and put back afterwards.
    inner_cov = getattr(alg, "epsiloncovering", None)
    if callable(inner_cov):
        def covering(*a, **k):
            regs = alg.design_space.confidence_regions
            live = set(alg.S) | set(alg.P)
            saved = {}
            for i, r in enumerate(regs):
                if i not in live and hasattr(r, "lower"):
                    saved[i] = (r.lower, r.upper)
                    r.lower, r.upper = np.full(len(np.atleast_1d(r.lower)), 1000.0), np.full(len(np.atleast_1d(r.lower)), 1001.0)
            try:
                return inner_cov(*a, **k)
            finally:
                for i, (lo, up) in saved.items():
                    regs[i].lower, regs[i].upper = lo, up
        alg.epsiloncovering = covering

    def proj():
        return {"S": sorted(int(i) + 1 for i in alg.S), "P": sorted(int(i) + 1 for i in alg.P), "round": int(alg.round),
                "samples": int(alg.sample_count), "gate": bool(alg.enable_epsilon_covering)}

    done = 0
    for stepno in range(cfg.get("max_steps", 120)):
        pre = proj()
        n0 = len(alg.design_space.points)
        c0 = calls["n"]
        exc, ret = 0, False
        try:
            ret = bool(alg.run_one_step())
        except Exception as e:
            exc = 1
            T["exc_info"] = repr(e)[:300]
        post = proj()
        ds = alg.design_space
        new = []
        refined = 0
        for j in range(n0, len(ds.points)):
            cell = [[float(a) * sc, float(b) * sc] for a, b in ds.cells[j]]
            integral = all(abs(v - round(v)) < 1e-12 for iv in cell for v in iv)
            new.append({"id": j + 1, "cell": [[int(round(iv[0])), int(round(iv[1]))] for iv in cell] if integral else [[0, 0]] * dim,
                        "depth": int(ds.point_depths[j]), "centre2": [int(round(float(p) * sc * 2)) if abs(float(p) * sc * 2 - round(float(p) * sc * 2)) < 1e-12 else -1 for p in ds.points[j]],
                        "region_from_parent": True})
        if new:
            left = (set(pre["S"]) | set(pre["P"])) - (set(post["S"]) | set(post["P"]))
            for cand in sorted(left):
                pc = [[float(a) * sc, float(b) * sc] for a, b in ds.cells[cand - 1]]
                if all(pc[k][0] <= new[0]["cell"][k][0] and new[0]["cell"][k][1] <= pc[k][1] for k in range(dim)):
                    refined = cand
                    break
            if refined:
                pr = ds.confidence_regions[refined - 1]
                for nn in new:
                    r = ds.confidence_regions[nn["id"] - 1]
                    nn["region_from_parent"] = bool(np.array_equal(r.lower, pr.lower) and np.array_equal(r.upper, pr.upper))
        rel = {"a": [], "b": [], "c": []}
        amb = {"a": [], "b": [], "c": []}
        skipsets = True
        if not exc and pre["S"] and cfg.get("relations", True) and len(pre["S"]) + len(pre["P"]) <= 45:
            try:
                rel, amb = AT.relations(alg, {"alg": "VOGP", "eps": cfg["eps"]}, dict(pre, U=[]), dict(post, U=[]))
                skipsets = sum(len(v) for v in amb.values()) > 8
                if skipsets:
                    amb = {"a": [], "b": [], "c": []}
            except Exception as e:
                T.setdefault("rel_errors", []).append(repr(e)[:100])
        T["steps"].append({"pre": pre, "post": post, "ret": ret, "exc": exc, "new": new, "refined": refined, "rows": calls["n"] - c0,
                           "rel": rel, "amb": amb, "skipsets": bool(skipsets)})
        if exc:
            break
        if ret:
            done += 1
            if done > 2:
                break
    T["points"] = len(alg.design_space.points)
    return T


def validate_ad(ctx, traces):
    traces = [T for T in traces if T["steps"]]
    d = tlc.scratch("vvad-")
    try:
        path = os.path.join(d, "t.ndjson")
        with open(path, "w") as fh:
            for T in traces:
                fh.write(json.dumps({k: T[k] for k in ("tid", "dim", "maxdepth", "steps")}) + "\n")
        res = tlc.run("VOTraceTree", "INIT Init\nNEXT Next\nCHECK_DEADLOCK FALSE\n", workers=1, timeout=2400, env={"TRACE_FILE": path}, heap="8g")
    finally:
        shutil.rmtree(d, ignore_errors=True)
    ctx.add_tlc(res, "VOTraceTree")
    if not res.ok:
        raise tlc.MachineryError("VOTraceTree failed: %s" % (res.error or res.violated))
    done = {v[1] for v in res.prints if v and v[0] == "DONE"}
    if done != {T["tid"] for T in traces}:
        raise tlc.MachineryError("missing verdicts in VOTraceTree")
    return [(v[1], v[2], sorted(k for k, ok in v[3].items() if not ok)) for v in res.prints if v and v[0] == "REJECT"]


def ad_matrix(tier, seed):
    rnd = random.Random(seed)
    q = tier == "quick"
    M = [dict(problem="p1", eps=0.2, contraction=32, order=["orth", 2], max_steps=80),
         dict(problem="p2", eps=0.2, contraction=32, order=["theta", 60], max_steps=(90 if q else 200)),
         dict(problem="p3", eps=0.3, contraction=32, order=["orth", 2], max_steps=60),
         dict(problem="p2", eps=0.1, contraction=64, order=["theta", 120], max_steps=(90 if q else 200)),
         dict(problem="branin", eps=0.05, contraction=64, order=["theta", 60], max_steps=(100 if q else 260)),
         dict(problem="p1", eps=0.05, contraction=64, order=["theta", 90], max_steps=80),
         dict(problem="p1", eps=0.2, contraction=32, order=["orth", 2], max_steps=60, depth_max=3, warm=dict(depth_max=6, steps=40)),
         dict(problem="p2", eps=0.2, contraction=32, order=["orth", 2], max_steps=60, depth_max=3, warm=dict(depth_max=2, steps=25)),
         # boundary configuration: the root is already the finest leaf (nothing may be refined, the root is what gets declared)
         dict(problem="p2", eps=0.2, contraction=32, order=["orth", 2], max_steps=8, depth_max=1),
         dict(problem="p3", eps=0.3, contraction=32, order=["theta", 60], max_steps=8, depth_max=1)]
    if not q:
        M += [dict(problem="branin", eps=0.1, contraction=32, order=["orth", 2], max_steps=260),
              dict(problem="branin", eps=0.05, contraction=64, order=["theta", 135], max_steps=260),
              dict(problem="p3", eps=0.1, contraction=64, order=["theta", 45], max_steps=120)]
    for k, c in enumerate(M):
        c["tid"] = k + 1
        c["seed"] = rnd.randrange(1, 10 ** 6) if k != 4 else 0
    return M


def run_ad(ctx, prop):
    M = ad_matrix(ctx.tier, ctx.seed)
    if prop in ("C02", "C03"):
        M = [c for c in M if c["problem"] in ("p2", "p3", "branin")][:4]      # decisions against relations: the runs with real refinement
    else:
        for c in M:
            c["relations"] = False
    traces = pmap(record_ad, M)
    for T in traces:
        if T.get("build_error") and prop == "C06":
            ctx.violation("build|VOGP_AD", {"cfg": T["cfg"], "error": T["build_error"]}, "constructing VOGP_AD failed: %s" % T["build_error"])
    rej = validate_ad(ctx, traces)
    byid = {T["tid"]: T for T in traces}
    foreign = {}
    for tid, l, failing in rej:
        T = byid[tid]
        for cl in failing:
            mine = prop in OWNER.get(cl, "")
            if not mine:
                foreign[cl] = foreign.get(cl, 0) + 1
                continue
            st = T["steps"][l - 1]
            ctx.violation("vogp_ad-%s|%s|dim=%d" % (cl, T["cfg"]["problem"], T["dim"]),
                          {"cfg": T["cfg"], "step": l, "clause": cl, "pre": st["pre"], "post": st["post"], "new": st["new"], "refined": st["refined"], "exc_info": T.get("exc_info")},
                          "VOGP_AD run %s step %d: clause %s rejected (pre=%s post=%s refined=%s new=%s)" % (T["cfg"], l, cl, st["pre"], st["post"], st["refined"], [n["id"] for n in st["new"]]))
    nsteps = sum(len(T["steps"]) for T in traces)
    ctx.traces += len([T for T in traces if T["steps"]])
    ctx.evaluations += nsteps
    ctx.extra["vogp_ad_steps"] = nsteps
    ctx.extra["vogp_ad_refinements"] = sum(1 for T in traces for s in T["steps"] if s["refined"])
    ctx.extra["vogp_ad_nodes"] = [T.get("points") for T in traces]
    ctx.extra["vogp_ad_pareto_declared"] = sum(len(T["steps"][-1]["post"]["P"]) for T in traces if T["steps"])
    ctx.extra["vogp_ad_foreign_clause_rejections"] = foreign
    ctx.extra["vogp_ad_steps_with_judged_decisions"] = sum(1 for T in traces for s in T["steps"] if not s.get("skipsets", True))
    for T in traces:
        for s in T["steps"]:
            if s["refined"] or set(s["pre"]["S"]) != set(s["post"]["S"]):
                ctx.nontriv((T["tid"], s["pre"]["round"]))
    if traces and traces[0]["steps"]:
        ctx.sample({"cfg": traces[0]["cfg"], "steps": traces[0]["steps"][:3]})
    return traces


def run(ctx):
    import vopy.algorithms  # noqa: F401
    thorough = ctx.tier == "thorough"
    jobs = []
    for dim, D, mn in ([(1, 4, 15), (2, 3, 13), (3, 2, 9)] + ([(1, 5, 17), (2, 2, 5)] if thorough else [])):
        res = tlc.run("VOTree", CFG % (dim, D, mn) + INVS, timeout=3000)
        ctx.add_tlc(res, "VOTree Dim=%d MaxDepth=%d" % (dim, D))
        if res.violated or not res.ok:
            raise tlc.MachineryError("VOTree theorem fails: %s %s" % (res.violated, res.error))
    # the last two: deep trees (levels 7-10, beyond the default maximum depth of 5): cells stay exactly dyadic at every level
    for k, (dim, D, mn, num, depth) in enumerate([(1, 5, 25, 40, 14), (2, 4, 41, 40, 14), (3, 3, 33, 40, 14), (1, 10, 61, 16, 36), (2, 7, 61, 12, 24)]):
        num = num * 3 if thorough else num
        r, behs = tlc.simulate("VOTree", (CFG % (dim, D, mn)).replace("NEXT Next", "NEXT NextSim"), num=num, depth=depth, seed=ctx.seed * 3 + k + 1, timeout=900)
        ctx.add_tlc(r, "VOTree -simulate Dim=%d" % dim)
        if len(behs) < num // 2:
            raise tlc.MachineryError("VOTree simulation gave %d behaviours: %s" % (len(behs), r.error))
        for ch in chunks(behs, 10):
            jobs.append((ch, dim, D))
    out = pmap(_replay_refine, jobs)
    nref = sum(n for n, _ in out)
    for b in [x for _, bs in out for x in bs]:
        ctx.violation("tree-%s|dim=%d" % (b["kind"], b["dim"]), b, "refine_design disagrees with VOTree: %s" % str(b)[:400])
    ctx.traces += sum(len(j[0]) for j in jobs)
    ctx.evaluations += nref
    ctx.extra["refinements_replayed"] = nref
    ng, badg = _gate(ctx.seed)
    ctx.evaluations += ng
    ctx.extra["depth_gate_calls"] = ng
    for b in badg:
        ctx.violation("tree-depth-gate|dim=%d" % b["dim"], b, "should_refine_design at depth %d of a design space with max_depth %d answered %s (expected %s); design spaces "
                      "created before in this process: max_depth %s" % (b["depth"], b["maxdepth"], b["got"], b["expected"], b["instances_before"]))
    run_ad(ctx, "C18")
    ctx.rule = ("VOTree exhaustive for (dim, max depth) in {(1,4),(2,3),(3,2)} (thorough: + (1,5) with 17 nodes: 10^7 states); simulate behaviours (dims 1-3) replayed into refine_design; real VOGP_AD runs on "
                "1-, 2- and 3-dimensional problems validated per step; non-trivial = steps with a refinement or a change of S")
    ctx.assumptions += ["the GP hyper-parameter training set of VOGP_AD runs is reduced to 48 Sobol points (module-namespace substitution) to keep runs short",
                        "should_refine_design is an environment decision except for its depth gate"]


def replay(body):
    from .core import Ctx
    c = body["case"]
    if "cfg" in c:
        T = record_ad(c["cfg"])
        rej = validate_ad(Ctx("C18", "quick", 0), [T])
        return not [r for r in rej if c["clause"] in r[2]]
    if c.get("kind") == "depth-gate":
        return not _gate(0)[1]
    return not _replay_refine(([], c["dim"], c["maxdepth"]))[1]

"""Parser for TLA+ values as printed by TLC (state dumps, -simulate files, PrintT lines).

Mapping:  set -> frozenset, tuple/sequence -> tuple, record -> dict, function -> dict,
string -> str, integer -> int, TRUE/FALSE -> bool, model value / identifier -> str prefixed '@'.
"""
import re

_tok = re.compile(r'\s*(<<|>>|\|->|:>|@@|\.\.|\[|\]|\{|\}|\(|\)|,|"(?:[^"\\]|\\.)*"|-?\d+|[A-Za-z_][A-Za-z0-9_]*)')


class ParseError(Exception):
    pass


def tokenize(s):
    pos, out = 0, []
    n = len(s)
    while pos < n:
        m = _tok.match(s, pos)
        if not m:
            if s[pos:].strip() == "":
                break
            raise ParseError("bad token at %r" % s[pos:pos + 30])
        out.append(m.group(1))
        pos = m.end()
    return out


def _freeze(v):
    if isinstance(v, dict):
        return tuple(sorted((_freeze(k), _freeze(x)) for k, x in v.items()))
    if isinstance(v, (list, tuple)):
        return tuple(_freeze(x) for x in v)
    if isinstance(v, (set, frozenset)):
        return frozenset(_freeze(x) for x in v)
    return v


class HDict(dict):
    """dict that can live inside a frozenset (hash by frozen contents)."""

    def __hash__(self):
        return hash(_freeze(self))


def _parse(toks, i):
    t = toks[i]
    if t == "<<":
        i += 1
        items = []
        if toks[i] == ">>":
            return tuple(), i + 1
        while True:
            v, i = _parse(toks, i)
            items.append(v)
            if toks[i] == ",":
                i += 1
                continue
            if toks[i] == ">>":
                return tuple(items), i + 1
            raise ParseError("tuple: unexpected %r" % toks[i])
    if t == "{":
        i += 1
        items = []
        if toks[i] == "}":
            return frozenset(), i + 1
        while True:
            v, i = _parse(toks, i)
            items.append(v)
            if toks[i] == ",":
                i += 1
                continue
            if toks[i] == "}":
                return frozenset(items), i + 1
            raise ParseError("set: unexpected %r" % toks[i])
    if t == "[":
        i += 1
        d = HDict()
        while True:
            k = toks[i]
            if toks[i + 1] != "|->":
                raise ParseError("record: expected |-> after %r" % k)
            v, i = _parse(toks, i + 2)
            d[k] = v
            if toks[i] == ",":
                i += 1
                continue
            if toks[i] == "]":
                return d, i + 1
            raise ParseError("record: unexpected %r" % toks[i])
    if t == "(":
        i += 1
        d = HDict()
        while True:
            k, i = _parse(toks, i)
            if toks[i] != ":>":
                raise ParseError("function: expected :> got %r" % toks[i])
            v, i = _parse(toks, i + 1)
            d[k] = v
            if toks[i] == "@@":
                i += 1
                continue
            if toks[i] == ")":
                return d, i + 1
            raise ParseError("function: unexpected %r" % toks[i])
    if t[0] == '"':
        return t[1:-1].replace('\\"', '"').replace("\\\\", "\\"), i + 1
    if t == "TRUE":
        return True, i + 1
    if t == "FALSE":
        return False, i + 1
    if re.fullmatch(r"-?\d+", t):
        if i + 2 < len(toks) + 0 and i + 1 < len(toks) and toks[i + 1] == "..":
            hi = int(toks[i + 2])
            return frozenset(range(int(t), hi + 1)), i + 3
        return int(t), i + 1
    if re.fullmatch(r"[A-Za-z_][A-Za-z0-9_]*", t):
        return "@" + t, i + 1
    raise ParseError("unexpected token %r" % t)


def parse_value(s):
    toks = tokenize(s)
    v, i = _parse(toks, 0)
    if i != len(toks):
        raise ParseError("trailing tokens %r" % toks[i:i + 5])
    return v


def parse_state(text):
    """text: lines '/\\ var = value' (value may span lines). returns dict var -> value"""
    out = {}
    parts = re.split(r"(?m)^/\\ ", text.strip())
    for p in parts:
        p = p.strip()
        if not p:
            continue
        m = re.match(r"([A-Za-z_][A-Za-z0-9_]*)\s*=\s*(.*)\Z", p, re.S)
        if not m:
            raise ParseError("bad conjunct %r" % p[:60])
        out[m.group(1)] = parse_value(m.group(2))
    return out


def seq(v):
    """TLC prints sequences as tuples; functions with domain 1..n may print as (1 :> a @@ 2 :> b)."""
    if isinstance(v, tuple):
        return list(v)
    if isinstance(v, dict):
        return [v[k] for k in sorted(v)]
    raise TypeError(type(v))


def to_tla(v):
    """python -> TLA+ literal (ints, bools, str, list/tuple -> <<>>, set -> {}, dict with str keys -> record)."""
    if isinstance(v, bool):
        return "TRUE" if v else "FALSE"
    if isinstance(v, int):
        return str(v)
    if isinstance(v, str):
        return '"%s"' % v
    if isinstance(v, (list, tuple)):
        return "<<" + ", ".join(to_tla(x) for x in v) + ">>"
    if isinstance(v, (set, frozenset)):
        return "{" + ", ".join(sorted(to_tla(x) for x in v)) + "}"
    if isinstance(v, dict):
        if all(isinstance(k, str) for k in v):
            return "[" + ", ".join("%s |-> %s" % (k, to_tla(x)) for k, x in v.items()) + "]"
        return "(" + " @@ ".join("%s :> %s" % (to_tla(k), to_tla(x)) for k, x in v.items()) + ")"
    raise TypeError(type(v))

import importlib
import sys

from .core import main_for


def main():
    if len(sys.argv) < 2:
        print("usage: check <ID> [quick|thorough] [--replay PATH]")
        return 2
    pid = sys.argv[1].upper()
    mod = importlib.import_module("harness.%s" % pid.lower())
    return main_for(mod.run, getattr(mod, "replay", lambda body: True), pid, sys.argv[2:])


if __name__ == "__main__":
    sys.exit(main())

"""C15 - GP models return the exact posterior of exactly the data they hold.

leg 1: TLC model-checks spec/VOModel.tla (add_sample in every batching / objective pattern, update, clear, predict): the conditioning set
       changes only at update() and then equals what the wrapper holds; clear + update forgets; an observation of one objective changes
       only that objective's data.
leg 2: behaviours from tlc -simulate are replayed into IndependentExactGPyTorchModel, CorrelatedExactGPyTorchModel (scalar and full-matrix
       noise) and GPyTorchModelListExactModel for input dimensions 1-3 and 2-3 objectives with randomised hyper-parameters.  At every
       predict the harness computes the closed-form posterior (harness/gpref.py: kernel matrices, mean constant and noise read from the
       wrapped gpytorch modules; numpy linear algebra) OF THE SAMPLES THE SPECIFICATION SAYS THE MODEL IS CONDITIONED ON and compares means,
       covariances and shapes (N, m) / (N, m, m) for N in {1, 2, 5}; variances are non-negative and do not grow when the conditioning bag
       grows; get_lengthscale_and_var has one entry per objective and agrees with the kernel.
leg 3: the train-and-freeze helpers with 0, 1 and several initial samples return models that are up to date (posterior of exactly the
       samples they report).
"""
import random

from . import tlc
from .pool import chunks, pmap
from .tlaval import seq

CFG = """CONSTANTS
 Kind = "%s"
 M = %d
 NS = %d
 MaxLen = %d
 MinCond = %d
INIT Init
NEXT Next
CHECK_DEADLOCK FALSE
"""
PROPS = "INVARIANT UpToDateAfterUpdate\nPROPERTY CondOnlyAtUpdate\nPROPERTY ClearThenUpdateForgets\nPROPERTY ObjLocal\nVIEW View\n"
TOL = 1e-6


def _pool(rs, d, m, ns):
    import numpy as np
    X = rs.rand(ns, d)
    X[ns - 1] = X[0]                       # a repeated input
    Y = rs.randn(ns, m)
    return X, Y


def _randomise(wrapper, rs, kind):
    """well-conditioned random hyper-parameters through the public gpytorch attributes"""
    import torch
    gp = wrapper.model
    with torch.no_grad():
        if kind == "indep":
            gp.covar_module.base_kernel.lengthscale = torch.tensor(0.3 + rs.rand(*gp.covar_module.base_kernel.lengthscale.shape))
            gp.covar_module.outputscale = torch.tensor(0.5 + rs.rand(*gp.covar_module.outputscale.shape))
        elif kind == "corr":
            gp.covar_module.data_covar_module.lengthscale = torch.tensor(0.3 + rs.rand(*gp.covar_module.data_covar_module.lengthscale.shape))
            tc = gp.covar_module.task_covar_module
            tc.covar_factor.data = torch.tensor(0.3 * rs.randn(*tc.covar_factor.shape))
            tc.var = torch.tensor(0.3 + rs.rand(*tc.var.shape))
        else:
            for sub in gp.models:
                sub.covar_module.base_kernel.lengthscale = torch.tensor(0.3 + rs.rand(*sub.covar_module.base_kernel.lengthscale.shape))
                sub.covar_module.outputscale = torch.tensor(0.5 + rs.rand())
                sub.mean_module.constant.data = torch.tensor(float(rs.randn()))
    # NOTE: no update() here - it is called right after the FIRST update and before any prediction, so no prediction strategy is
    # cached yet; a second update() would hide defects of the first one (seed C15b).


def _replay(args):
    import warnings
    warnings.filterwarnings("ignore")
    import numpy as np
    import torch
    torch.set_num_threads(1)
    from vopy.models import CorrelatedExactGPyTorchModel, GPyTorchModelListExactModel, IndependentExactGPyTorchModel
    from . import gpref
    behs, kind, d, m, seed = args
    rs = np.random.RandomState(seed)
    rnd = random.Random(seed)
    bad = []
    npred = 0
    for b in behs:
        ns = 5
        X, Y = _pool(rs, d, m, ns)
        if kind == "indep":
            w = IndependentExactGPyTorchModel(d, m, noise_var=0.05 + 0.1 * rs.rand())
        elif kind == "corr":
            w = CorrelatedExactGPyTorchModel(d, m, noise_var=0.05 + 0.1 * rs.rand())
        elif kind == "corrM":
            A = 0.2 * rs.randn(m, m)
            w = CorrelatedExactGPyTorchModel(d, m, noise_var=A @ A.T + 0.1 * np.eye(m))
        else:
            w = GPyTorchModelListExactModel(d, m, noise_var=0.05 + 0.1 * rs.rand())
        hist = []
        randomised = False
        Xt = rs.rand(5, d)
        seen = []          # (cond bag per objective, variances at Xt) for monotonicity
        for act, st in b[1:]:
            op = st["op"]
            hist.append({k: (list(v) if isinstance(v, tuple) else v) for k, v in op.items()})
            try:
                if op["name"] == "add":
                    ids = [i - 1 for i in op["ids"]]
                    if kind == "list":
                        objs = [o - 1 for o in op["objs"]]
                        if op["n"] == 1 and rnd.random() < 0.5:
                            w.add_sample(X[ids], Y[ids, objs[0]], int(objs[0]))          # all samples for one objective: plain int
                        else:
                            w.add_sample(X[ids], Y[ids, objs], list(objs))
                    else:
                        w.add_sample(X[ids], Y[ids])
                elif op["name"] == "update":
                    w.update()
                    if not randomised:
                        _randomise(w, rs, "indep" if kind == "indep" else "list" if kind == "list" else "corr")
                        randomised = True
                        seen = []
                elif op["name"] == "clear":
                    w.clear_data()
                elif op["name"] == "train":
                    w.train()
                    seen = []          # new hyper-parameters: variances before and after are not comparable
                elif op["name"] == "predict":
                    N = op["n"]
                    Xs = Xt[:N]
                    cond = [[i - 1 for i in seq(c)] for c in seq(st["cond"])]
                    if kind in ("corr", "corrM") and len(cond[0]) == 0:
                        continue                                    # the correlated model needs at least one sample (property)
                    mu, cov = w.predict(Xs)
                    npred += 1
                    if kind == "indep":
                        emu, ecov = gpref.posterior_independent(w, X[cond[0]], Y[cond[0]], Xs)
                    elif kind == "list":
                        emu, ecov = gpref.posterior_list(w, [(X[c], Y[c, k]) for k, c in enumerate(cond)], Xs)
                    else:
                        emu, ecov = gpref.posterior_correlated(w, X[cond[0]], Y[cond[0]], Xs)
                    why = None
                    if np.shape(mu) != (N, m) or np.shape(cov) != (N, m, m):
                        why = "shapes %s %s, expected (%d,%d) (%d,%d,%d)" % (np.shape(mu), np.shape(cov), N, m, N, m, m)
                    elif not np.allclose(mu, emu, rtol=TOL, atol=TOL):
                        why = "mean differs from the posterior of the data held at the last update by %.3g" % float(np.abs(mu - emu).max())
                    elif not np.allclose(cov, ecov, rtol=TOL, atol=TOL):
                        why = "covariance differs from the posterior of the data held at the last update by %.3g" % float(np.abs(cov - ecov).max())
                    elif np.any(np.diagonal(cov, axis1=-2, axis2=-1) < -1e-9):
                        why = "negative posterior variance"
                    if why is None and N == 5:
                        var = np.diagonal(cov, axis1=-2, axis2=-1)
                        bags = [sorted(c) for c in cond]
                        for pb, pv in seen:
                            for k in range(m):
                                inc = all(pb[k].count(i) <= bags[k].count(i) for i in set(pb[k]))
                                if inc and np.any(var[:, k] > pv[:, k] + 1e-8):
                                    why = "posterior variance of objective %d grew although its conditioning set only grew" % k
                        seen.append((bags, var))
                    if why:
                        bad.append({"kind": "predict", "model": kind, "in_dim": d, "m": m, "history": hist[:], "why": why})
                        break
                    # hyper-parameter report
                    try:
                        ls, vr = w.get_lengthscale_and_var()
                        ls, vr = np.asarray(ls), np.asarray(vr)
                        if kind == "indep":
                            okh = vr.shape == (m,) and ls.reshape(m, -1).shape == (m, d) and np.allclose(vr, w.model.covar_module.outputscale.detach().numpy())
                        elif kind == "list":
                            okh = vr.shape == (m,) and ls.reshape(m, -1).shape == (m, d) and np.allclose(vr, [float(s.covar_module.outputscale.detach()) for s in w.model.models])
                        else:
                            okh = vr.shape == (m,) and np.allclose(vr, w.model.covar_module.task_covar_module.var.detach().numpy().reshape(-1))
                        if not okh:
                            bad.append({"kind": "hyper-report", "model": kind, "in_dim": d, "m": m, "history": hist[:],
                                        "why": "get_lengthscale_and_var shapes %s %s do not have one entry per objective / disagree with the kernel" % (ls.shape, vr.shape)})
                            break
                    except Exception as e:
                        bad.append({"kind": "hyper-report", "model": kind, "in_dim": d, "m": m, "history": hist[:], "why": "get_lengthscale_and_var raised %r" % e})
                        break
            except Exception as e:
                bad.append({"kind": "exception", "model": kind, "in_dim": d, "m": m, "history": hist[:], "why": repr(e)[:300]})
                break
    return npred, bad


def _factories(seed):
    import warnings
    warnings.filterwarnings("ignore")
    import numpy as np
    import torch
    torch.set_num_threads(1)
    from vopy.maximization_problem import DecoupledEvaluationProblem, ProblemFromDataset
    from vopy.models import CorrelatedExactGPyTorchModel, IndependentExactGPyTorchModel
    from vopy.models.gpytorch import get_gpytorch_model_w_known_hyperparams, get_gpytorch_modellist_w_known_hyperparams
    from . import algotrace as AT
    from . import gpref
    AT.std_datasets()
    from vopy.datasets import get_dataset_instance
    bad = []
    n = 0
    for dsname in ("VVD2a", "VVD3a"):
        ds = get_dataset_instance(dsname)
        prob = ProblemFromDataset(ds, 0.01)
        Xs = ds.in_data[:4]
        for cls in (IndependentExactGPyTorchModel, CorrelatedExactGPyTorchModel):
            for cnt in (0, 1, 3):
                if cls is CorrelatedExactGPyTorchModel and cnt == 0:
                    continue
                np.random.seed(seed + cnt)
                mdl = get_gpytorch_model_w_known_hyperparams(cls, prob, 0.01, cnt, X=ds.in_data, Y=ds.out_data)
                hx, hy = mdl.train_inputs.numpy(force=True), mdl.train_targets.numpy(force=True)
                n += 1
                try:
                    mu, cov = mdl.predict(Xs)
                    f = gpref.posterior_independent if cls is IndependentExactGPyTorchModel else gpref.posterior_correlated
                    emu, ecov = f(mdl, hx, hy, Xs)
                    if len(hx) != cnt or not (np.allclose(mu, emu, rtol=TOL, atol=TOL) and np.allclose(cov, ecov, rtol=TOL, atol=TOL)):
                        bad.append({"kind": "factory", "model": cls.__name__, "initial_sample_cnt": cnt, "dataset": dsname, "held": int(len(hx)),
                                    "why": "the returned model is not conditioned on exactly the %d samples it holds (max mean error %.3g)" % (len(hx), float(np.abs(mu - emu).max()))})
                except Exception as e:
                    bad.append({"kind": "factory", "model": cls.__name__, "initial_sample_cnt": cnt, "dataset": dsname, "held": int(len(hx)), "why": repr(e)[:200]})
        for cnt in (0, 1, 4):
            np.random.seed(seed + cnt)
            mdl = get_gpytorch_modellist_w_known_hyperparams(DecoupledEvaluationProblem(prob), 0.01, cnt, X=ds.in_data, Y=ds.out_data)
            data = [(mdl.train_inputs[k].numpy(force=True), mdl.train_targets[k].numpy(force=True)) for k in range(ds.out_dim)]
            n += 1
            try:
                mu, cov = mdl.predict(Xs)
                emu, ecov = gpref.posterior_list(mdl, data, Xs)
                if sum(len(dk[0]) for dk in data) != cnt or not (np.allclose(mu, emu, rtol=TOL, atol=TOL) and np.allclose(cov, ecov, rtol=TOL, atol=TOL)):
                    bad.append({"kind": "factory", "model": "GPyTorchModelListExactModel", "initial_sample_cnt": cnt, "dataset": dsname,
                                "held": [int(len(dk[0])) for dk in data], "why": "the returned model list is not conditioned on exactly the samples it holds (max mean error %.3g)" % float(np.abs(mu - emu).max())})
                ls, vr = mdl.get_lengthscale_and_var()
                if np.asarray(vr).shape != (ds.out_dim,):
                    bad.append({"kind": "hyper-report", "model": "GPyTorchModelListExactModel", "in_dim": ds.in_dim, "m": ds.out_dim, "why": "variances shape %s" % (np.asarray(vr).shape,)})
            except Exception as e:
                bad.append({"kind": "factory-exception", "model": "GPyTorchModelListExactModel", "initial_sample_cnt": cnt, "dataset": dsname, "in_dim": ds.in_dim, "m": ds.out_dim, "why": repr(e)[:200]})
    return n, bad


def run(ctx):
    import vopy.models  # noqa: F401
    thorough = ctx.tier == "thorough"
    for kind, ml, mc in (("multi", 6, 1), ("list", 4, 0)):
        res = tlc.run("VOModel", CFG % (kind, 2, 3, ml, mc) + PROPS, timeout=1500)
        ctx.add_tlc(res, "VOModel exhaustive Kind=%s" % kind)
        if res.violated or not res.ok:
            raise tlc.MachineryError("VOModel theorem fails: %s %s" % (res.violated, res.error))
    jobs = []
    nb = 0
    k = 0
    for kind, skind, mincond in (("indep", "multi", 0), ("corr", "multi", 1), ("corrM", "multi", 1), ("list", "list", 0)):
        for d, m in ((2, 2), (1, 3), (3, 2)) + (((2, 3), (3, 3)) if thorough else ()):
            k += 1
            num = 24 if not thorough else 80
            r, behs = tlc.simulate("VOModel", CFG % (skind, m, 5, 8 * (m if skind == "multi" else 1), mincond), num=num, depth=14, seed=ctx.seed * 17 + k, timeout=900)
            ctx.add_tlc(r, "VOModel -simulate %s d=%d m=%d" % (kind, d, m))
            if len(behs) < num // 2:
                raise tlc.MachineryError("VOModel simulation gave %d behaviours: %s" % (len(behs), r.error))
            nb += len(behs)
            for b in behs:
                ctx.nontriv((kind, d, m, [st["op"] for _, st in b[1:]]))
            for i, ch in enumerate(chunks(behs, 6)):
                jobs.append((ch, kind, d, m, ctx.seed * 1000 + k * 10 + i))
    out = pmap(_replay, jobs)
    outf = pmap(_factories, [ctx.seed + 5])
    npred = sum(n for n, _ in out)
    for b in [x for _, bs in out for x in bs] + [x for _, bs in outf for x in bs]:
        sig = "gp-%s|%s" % (b["kind"], b["model"]) + ("|cnt=%s" % b["initial_sample_cnt"] if "initial_sample_cnt" in b else "") + (
            "|m>d=%s" % (b["m"] > b["in_dim"]) if b["kind"] in ("hyper-report", "factory-exception") and "in_dim" in b else "")
        ctx.violation(sig, b, "GP model %s: %s" % (b["model"], b["why"]))
    ctx.traces = nb + sum(n for n, _ in outf)
    ctx.evaluations = npred + sum(n for n, _ in outf)
    ctx.extra.update({"behaviours": nb, "predictions_compared": npred, "factory_cases": sum(n for n, _ in outf)})
    ctx.rule = ("tlc -simulate behaviours of VOModel (add in every batching/objective pattern, update, clear, predict at N in {1,2,5}) replayed into 4 wrapper "
                "configurations x (in_dim, m) in {(2,2),(1,3),(3,2)} (thorough: + (2,3),(3,3)); factories with 0/1/3-4 initial samples on 2 datasets")
    ctx.assumptions += ["numeric oracle: numpy closed-form GP algebra with kernel matrices / mean constant / noise read from the wrapped gpytorch modules (trusted)",
                        "tolerance 1e-6; hyper-parameters drawn in a well-conditioned range; the correlated model is not asked to predict from no data"]
    if jobs:
        ctx.sample([{"op": st["op"], "cond": st["cond"]} for _, st in jobs[0][0][0][1:6]])


def replay(body):
    c = body["case"]
    if c["kind"].startswith("factory") or (c["kind"] == "hyper-report" and "history" not in c):
        return not [b for b in _factories(5)[1] if b["model"] == c["model"] and b["kind"] == c["kind"]]
    return True

"""Closed-form Gaussian-process posteriors (numpy) for the three GP wrappers of vopy/models/gpytorch.py.

The DATA (which samples the GP is conditioned on) comes from the specification (VOModel!cond); the kernel matrices, mean constant
and noise are read from the wrapped gpytorch modules (the model's own kernel, mean constant and noise), the linear algebra is numpy.
This numeric half is a trusted oracle (stated in the manifest)."""
import numpy as np
import torch


def _t(a):
    return torch.tensor(np.asarray(a, dtype=float), dtype=torch.float64)


def posterior_independent(wrapper, X, Y, Xs):
    """BatchIndependentExactGPModel: zero mean, per-objective ScaleKernel(RBF), homoskedastic noise.  X (n,d), Y (n,m), Xs (N,d)"""
    gp = wrapper.model
    m = wrapper.output_dim
    N = len(Xs)
    mean = np.zeros((N, m))
    cov = np.zeros((N, m, m))
    with torch.no_grad():
        Kss = gp.covar_module(_t(Xs), _t(Xs)).to_dense().numpy()        # (m, N, N)
        noise = float(wrapper.likelihood.noise.detach().reshape(-1)[0])
        if len(X):
            K = gp.covar_module(_t(X), _t(X)).to_dense().numpy()         # (m, n, n)
            Ks = gp.covar_module(_t(X), _t(Xs)).to_dense().numpy()       # (m, n, N)
    for k in range(m):
        if len(X):
            A = K[k] + noise * np.eye(len(X))
            sol = np.linalg.solve(A, Ks[k])
            mean[:, k] = sol.T @ np.asarray(Y)[:, k]
            cov[:, k, k] = np.diag(Kss[k]) - np.einsum("ij,ij->j", Ks[k], sol)
        else:
            cov[:, k, k] = np.diag(Kss[k])
    return mean, cov


def posterior_correlated(wrapper, X, Y, Xs):
    """MultitaskExactGPModel: zero mean, MultitaskKernel (interleaved task ordering), scalar or task-matrix noise."""
    gp = wrapper.model
    m = wrapper.output_dim
    n = len(X)
    N = len(Xs)
    mean = np.zeros((N, m))
    cov = np.zeros((N, m, m))
    with torch.no_grad():
        K = gp.covar_module(_t(X), _t(X)).to_dense().numpy()                 # (n m, n m) interleaved: index = i*m + task
        lik = wrapper.likelihood
        if getattr(lik, "has_global_noise", False) and not getattr(lik, "has_task_noise", True):
            Nz = float(lik.noise.detach().reshape(-1)[0]) * np.eye(n * m)
        else:
            tn = lik.task_noise_covar.detach().numpy() if hasattr(lik, "task_noise_covar") else None
            Nz = np.kron(np.eye(n), tn)
            if getattr(lik, "has_global_noise", False):
                Nz = Nz + float(lik.noise.detach().reshape(-1)[0]) * np.eye(n * m)
        A = K + Nz
        y = np.asarray(Y, dtype=float).reshape(-1)                          # interleaved
        for j in range(N):
            xs = _t(Xs[j:j + 1])
            Ks = gp.covar_module(_t(X), xs).to_dense().numpy()              # (n m, m)
            Kss = gp.covar_module(xs, xs).to_dense().numpy()               # (m, m)
            sol = np.linalg.solve(A, Ks)
            mean[j] = sol.T @ y
            cov[j] = Kss - Ks.T @ sol
    return mean, cov


def posterior_list(wrapper, data, Xs):
    """IndependentModelList of SingleTaskGP: constant mean, ScaleKernel(RBF), Gaussian noise; data[k] = (X_k, y_k)."""
    m = wrapper.output_dim
    N = len(Xs)
    mean = np.zeros((N, m))
    cov = np.zeros((N, m, m))
    with torch.no_grad():
        for k, gp in enumerate(wrapper.model.models):
            c = float(gp.mean_module.constant.detach())
            noise = float(gp.likelihood.noise.detach().reshape(-1)[0])
            Kss = gp.covar_module(_t(Xs), _t(Xs)).to_dense().numpy()
            Xk, yk = data[k]
            if len(Xk):
                K = gp.covar_module(_t(Xk), _t(Xk)).to_dense().numpy()
                Ks = gp.covar_module(_t(Xk), _t(Xs)).to_dense().numpy()
                sol = np.linalg.solve(K + noise * np.eye(len(Xk)), Ks)
                mean[:, k] = c + sol.T @ (np.asarray(yk, dtype=float) - c)
                cov[:, k, k] = np.diag(Kss) - np.einsum("ij,ij->j", Ks, sol)
            else:
                mean[:, k] = c
                cov[:, k, k] = np.diag(Kss)
    return mean, cov

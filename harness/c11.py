"""C11 - the pessimistic rectangle comparison (check_dominates) is sound for every cone and complete for
two-facet 2-D cones.

leg 1: TLC proves on the lattice that the PROCEDURE the code runs (vertex test + segment/hyper-plane crossings on the
       W-images, VOGeometry!PDomProc/ExtPoly) implies the DEFINITION (every point of R1 dominates some point of R2),
       and is implied by it when the cone has two facets (GeomTable: PDomThm, PProcSound, PProcCompl).
leg 2: every table row is replayed into confidence_region_check_dominates: code TRUE => relaxed definition TRUE
       (soundness, all cones incl. 3-facet); strict definition TRUE => code TRUE (completeness, K = 2);
       on robust rows with exact data the code must equal the procedure.  3-D orthant rows: soundness.
leg 3: (last sentence of the property) VOGP / EpsilonPAL runs on scripted lattice posteriors, a quarter of the designs exact twins of
       others (ties, mutual domination): the pessimistic Pareto set handed to discarding() is recorded and validated by
       VOTraceAlgo clause `pess` = VOAlgo!VogpPess over the pairwise relation (geometric where robust, the code's own pairwise
       answer on exact ties).
"""
from . import algocheck as AC
from . import geomtab as T

PART = "pdom"


def run(ctx):
    import vopy.confidence_region  # noqa: F401
    thorough = ctx.tier == "thorough"
    cones = T.ALL_CONES if thorough else T.QUICK_CONES + ["k3b"]
    G = 3 if thorough else 2
    rows = T.table(ctx, PART, cones, G, [[0, 0]])
    T.bind_refeval(ctx, PART, rows)
    calls, bad = T.replay(ctx, PART, rows, ctx.seed, every=(1 if thorough else 2))
    rows3 = T.table3(ctx, G=1, slacks=((0, 0, 0),))
    c3, bad3 = T.replay3(ctx, PART, rows3, ctx.seed, every=1)
    T.bind_refeval3(ctx, PART, rows3)
    c3d, bad3d = T.eval3d(ctx, PART, ctx.seed, 40000 if thorough else 8000)      # general 3-D cones: soundness against the evaluator
    c3 += c3d
    bad3 += bad3d
    T.report(ctx, bad + bad3, "C11")
    AC.run_traces(ctx, "pess", "C11")
    ctx.traces += len(rows) + len(rows3)
    ctx.evaluations += calls + c3
    for r in rows + rows3:
        if r["ans"]["pdom"][0]:
            ctx.nontriv((r["cone"], r["r1"], r["r2"]))
    ctx.exhaustive = True
    ctx.rule = ("every ordered pair of lattice boxes on grid 0..%d (degenerate edges, equal coordinates) x cones %s, plus the 3-D "
                "orthant table; non-trivial = pairs whose relaxed answer is TRUE" % (G, cones))
    ctx.extra.update({"rect_rows": len(rows), "rect3_rows": len(rows3),
                      "rows_true": sum(1 for r in rows if r["ans"]["pdom"][1]),
                      "rows_proc_incomplete_K3": sum(1 for r in rows if r["ans"]["pdom"][1] and not r["ans"]["pproc"])})
    for r in rows[:3] + rows3[:1]:
        ctx.sample({k: v for k, v in r.items() if k != "allscales"})
    ctx.assumptions += ["completeness is claimed (and checked) only for cones with two facets in two objectives",
                        "margin for completeness: one lattice unit in every facet functional"]


def replay(body):
    case = body["case"]
    if "cfg" in case:
        return AC.replay_case(body, "C11")
    row = dict(case["row"], allscales=True)
    if case["kind"].startswith("rect3"):
        _, bad = T.replay_rows3((PART, [row], 0))
    else:
        row["r1"] = tuple(map(tuple, row["r1"])); row["r2"] = tuple(map(tuple, row["r2"]))
        _, bad = T.replay_rows((PART, [row], 0))
    for b in bad:
        print(" still failing:", b["kind"], b["scale"], b["got"], "expected", b["expected"])
    return not bad

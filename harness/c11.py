"""C11 - the pessimistic rectangle comparison (check_dominates) is sound for every cone and complete for
two-facet 2-D cones.

leg 1: TLC proves on the lattice that the PROCEDURE the code runs (vertex test + segment/hyper-plane crossings on the
       W-images, VOGeometry!PDomProc/ExtPoly) implies the DEFINITION (every point of R1 dominates some point of R2),
       and is implied by it when the cone has two facets (GeomTable: PDomThm, PProcSound, PProcCompl).
leg 2: every table row is replayed into confidence_region_check_dominates: code TRUE => relaxed definition TRUE
       (soundness, all cones incl. 3-facet); strict definition TRUE => code TRUE (completeness, K = 2);
       on robust rows with exact data the code must equal the procedure.  3-D orthant rows: soundness.
leg 2b: bundled theta cones (irrational normals) x overlapping lattice boxes against the bound evaluator (soundness, completeness).
leg 3: (last sentence of the property) VOGP / EpsilonPAL runs on scripted lattice posteriors, a quarter of the designs exact twins of
       others (ties, mutual domination): the pessimistic Pareto set handed to discarding() is recorded and validated by
       VOTraceAlgo clause `pess` = VOAlgo!VogpPess over the pairwise relation (geometric where robust, the code's own pairwise
       answer on exact ties).
"""
from . import algocheck as AC
from . import geomtab as T

PART = "pdom"


def _invert_leg(seed):
    """is_pt_in_extended_polytope with invert_extension=True is VOGeometry!ExtPoly reflected through the origin: the polytope extended
    towards minus infinity contains p iff the reflected polytope extended towards plus infinity contains -p; for the vertex set of a box
    both have closed forms (p >= lo, resp. p <= hi)."""
    import itertools
    import random
    import numpy as np
    from vopy.utils import is_pt_in_extended_polytope
    rnd = random.Random(seed)
    bad, n = [], 0
    for _ in range(400):
        d = rnd.choice([2, 2, 3])
        lo = np.array([rnd.randint(-2, 2) for _ in range(d)], dtype=float)
        hi = lo + np.array([rnd.choice([0, 1, 2]) for _ in range(d)], dtype=float)
        box = np.array(list(itertools.product(*zip(lo, hi))))
        if rnd.random() < 0.5 and d == 2:      # a sheared image, as check_dominates produces for non-orthant cones
            A = np.array(rnd.choice([[[2, -1], [-1, 2]], [[2, 1], [1, 2]], [[3, -1], [-1, 2]]]), dtype=float)
            poly = box @ A.T
            sheared = True
        else:
            poly, sheared = box, False
        pt = np.array([rnd.randint(-6, 8) / 2.0 for _ in range(d)])
        n += 1
        try:
            inv = bool(is_pt_in_extended_polytope(pt, poly, invert_extension=True))
            ref = bool(is_pt_in_extended_polytope(-pt, -poly, invert_extension=False))
            up = bool(is_pt_in_extended_polytope(pt, poly))
        except Exception as e:
            bad.append({"kind": "extpoly-exception", "pt": pt.tolist(), "polytope": poly.tolist(), "error": repr(e)[:200]})
            continue
        if inv != ref:
            bad.append({"kind": "extpoly-invert", "pt": pt.tolist(), "polytope": poly.tolist(), "inverted": inv, "reflected": ref})
        elif not sheared and (up != bool(np.all(pt >= lo)) or inv != bool(np.all(pt <= hi))):
            bad.append({"kind": "extpoly-box", "pt": pt.tolist(), "lo": lo.tolist(), "hi": hi.tolist(), "up": up, "inverted": inv})
    return n, bad


def _theta_leg(args):
    """Bundled two-facet cones with IRRATIONAL facet normals (ConeTheta2DOrder at acute and obtuse angles): on the integer cones of the table
    many W-images coincide, which hides the orientation of the image edges.  Pairs of lattice boxes that overlap or nest (the first one often
    degenerate in a coordinate), answers from the evaluator bound to TLC's table (exact rational arithmetic on the float entries of W):
    strict definition TRUE (margin one unit per facet, far above rounding) => code TRUE; code TRUE => relaxed definition TRUE."""
    seed, count = args
    import random
    import warnings
    warnings.filterwarnings("ignore")
    import numpy as np
    from vopy.confidence_region import RectangularConfidenceRegion, confidence_region_check_dominates
    from vopy.order import ConeTheta2DOrder
    from . import refeval as R
    rnd = random.Random(seed)
    bad, n = [], 0
    orders = {deg: ConeTheta2DOrder(cone_degree=deg) for deg in (30, 45, 60, 75, 120, 135)}
    for _ in range(count):
        deg = rnd.choice(list(orders))
        o = orders[deg]
        W = [[float(x) for x in r] for r in o.ordering_cone.W]
        lo2 = [rnd.randint(0, 4) for _ in range(2)]
        hi2 = [l + rnd.randint(1, 8) for l in lo2]
        lo1 = [rnd.randint(lo2[k] - 1, hi2[k] + 1) for k in range(2)]
        hi1 = [lo1[k] + rnd.choice([0, 0, 1, 3]) for k in range(2)]
        b1, b2 = (tuple(lo1), tuple(hi1)), (tuple(lo2), tuple(hi2))
        relaxed, strict = R.pdom_box(W, b1, b2, -1), R.pdom_box(W, b1, b2, 1)
        k = rnd.choice([1.0, 0.25, 0.01])
        try:
            got = bool(confidence_region_check_dominates(o, RectangularConfidenceRegion(2, np.array(b1[0], float) * k, np.array(b1[1], float) * k),
                                                         RectangularConfidenceRegion(2, np.array(b2[0], float) * k, np.array(b2[1], float) * k)))
        except Exception as e:
            bad.append({"kind": "theta-exception", "degree": deg, "r1": b1, "r2": b2, "scale": k, "error": repr(e)[:200]})
            continue
        n += 1
        if strict and not got:
            bad.append({"kind": "theta-incomplete", "degree": deg, "r1": b1, "r2": b2, "scale": k, "got": got, "expected": True})
        elif got and not relaxed:
            bad.append({"kind": "theta-unsound", "degree": deg, "r1": b1, "r2": b2, "scale": k, "got": got, "expected": False})
    return n, bad


def _theta_one(case):
    import numpy as np
    from vopy.confidence_region import RectangularConfidenceRegion, confidence_region_check_dominates
    from vopy.order import ConeTheta2DOrder
    k = case["scale"]
    got = bool(confidence_region_check_dominates(ConeTheta2DOrder(cone_degree=case["degree"]),
                                                 RectangularConfidenceRegion(2, np.array(case["r1"][0], float) * k, np.array(case["r1"][1], float) * k),
                                                 RectangularConfidenceRegion(2, np.array(case["r2"][0], float) * k, np.array(case["r2"][1], float) * k)))
    print(" check_dominates now answers", got, "expected", case["expected"])
    return got == case["expected"]


def run(ctx):
    import vopy.confidence_region  # noqa: F401
    thorough = ctx.tier == "thorough"
    cones = T.ALL_CONES if thorough else T.QUICK_CONES + ["k3b"]
    G = 3 if thorough else 2
    rows = T.table(ctx, PART, cones, G, [[0, 0]])
    T.bind_refeval(ctx, PART, rows)
    calls, bad = T.replay(ctx, PART, rows, ctx.seed, every=(1 if thorough else 2))
    rows3 = T.table3(ctx, G=1, slacks=((0, 0, 0),))
    c3, bad3 = T.replay3(ctx, PART, rows3, ctx.seed, every=1)
    T.bind_refeval3(ctx, PART, rows3)
    c3d, bad3d = T.eval3d(ctx, PART, ctx.seed, 40000 if thorough else 8000)      # general 3-D cones: soundness against the evaluator
    c3 += c3d
    bad3 += bad3d
    T.report(ctx, bad + bad3, "C11")
    ni, badi = _invert_leg(ctx.seed)
    for b in badi:
        ctx.violation("%s|dim=%d" % (b["kind"], len(b["pt"])), b, "is_pt_in_extended_polytope: %s" % str(b)[:400])
    ctx.evaluations += ni
    from .pool import pmap
    per = 4000 if thorough else 1200
    outt = pmap(_theta_leg, [(ctx.seed * 100 + i, per) for i in range(8)])
    for nt, badt in outt:
        ctx.evaluations += nt
        for b in badt:
            ctx.violation("%s|degree=%d" % (b["kind"], b["degree"]), b, "check_dominates on a bundled theta cone: %s" % str(b)[:400])
    ctx.extra["theta_cone_pairs"] = sum(nt for nt, _ in outt)
    AC.run_traces(ctx, "pess", "C11")
    ctx.traces += len(rows) + len(rows3)
    ctx.evaluations += calls + c3
    for r in rows + rows3:
        if r["ans"]["pdom"][0]:
            ctx.nontriv((r["cone"], r["r1"], r["r2"]))
    ctx.exhaustive = True
    ctx.rule = ("every ordered pair of lattice boxes on grid 0..%d (degenerate edges, equal coordinates) x cones %s, plus the 3-D "
                "orthant table; non-trivial = pairs whose relaxed answer is TRUE" % (G, cones))
    ctx.extra.update({"rect_rows": len(rows), "rect3_rows": len(rows3),
                      "rows_true": sum(1 for r in rows if r["ans"]["pdom"][1]),
                      "rows_proc_incomplete_K3": sum(1 for r in rows if r["ans"]["pdom"][1] and not r["ans"]["pproc"])})
    for r in rows[:3] + rows3[:1]:
        ctx.sample({k: v for k, v in r.items() if k != "allscales"})
    ctx.assumptions += ["completeness is claimed (and checked) only for cones with two facets in two objectives",
                        "margin for completeness: one lattice unit in every facet functional"]


def replay(body):
    case = body["case"]
    if "cfg" in case:
        return AC.replay_case(body, "C11")
    if case.get("kind", "").startswith("theta"):
        return True if case["kind"] == "theta-exception" else _theta_one(case)
    if case.get("kind", "").startswith("extpoly"):
        return not _invert_leg(0)[1]
    row = dict(case["row"], allscales=True)
    if case["kind"].startswith("rect3"):
        _, bad = T.replay_rows3((PART, [row], 0))
    else:
        row["r1"] = tuple(map(tuple, row["r1"])); row["r2"] = tuple(map(tuple, row["r2"]))
        _, bad = T.replay_rows((PART, [row], 0))
    for b in bad:
        print(" still failing:", b["kind"], b["scale"], b["got"], "expected", b["expected"])
    return not bad

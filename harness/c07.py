"""C07 - samples go to the acquisition maximiser among active designs and reach the model

leg 1: TLC explores the abstract run model VOAlgoAbs (every relation configuration on N designs, every reachable
       (S, P, U)) for the algorithms concerned and checks the run invariants.
leg 3: real executions of the algorithm classes (driver matrix in harness.algocheck.matrix) are recorded through
       public attributes and a recording problem proxy, relations of the displayed regions are computed by the
       reference evaluator (bound to TLC tables by C09-C11), and every step is validated by spec/VOTraceAlgo.tla.
       This check owns the clauses sactive, sargmax, sdistinct, data; rejections of other clauses are reported by their own checks.
"""
from . import algocheck as AC

PROP = "C07"
KIND = "sample"
ALGS = ['PaVeBa', 'PaVeBaGP', 'PaVeBaPartialGP', 'VOGP', 'EpsilonPAL', 'Auer', 'NaiveElimination', 'DecoupledGP']


def _own_region_leg(seed):
    """The rank function of IsTopQ for VOGP / VOGP_AD / eps-PAL is "the diagonal of the design's OWN displayed region": points handed to
    MaxDiagonalAcquisition are mapped back to their designs (locate_points) - also when two designs are 2e-6 apart, when coordinates are
    large, and whatever the order of the query."""
    import numpy as np
    from vopy.acquisition import MaxDiagonalAcquisition, optimize_acqf_discrete
    from vopy.design_space import FixedPointsDesignSpace
    rs = np.random.RandomState(seed + 31)
    bad, n = [], 0
    for trial in range(40):
        npts, d = int(rs.randint(4, 13)), int(rs.randint(1, 4))
        X = rs.rand(npts, d) * (1.0, 1.0, 50.0)[trial % 3] + (0.0, 0.0, -20.0)[trial % 3]
        i, j = sorted(int(v) for v in rs.choice(npts, 2, replace=False))
        if trial % 2 == 0:
            X[j] = X[i] + 2e-6            # a near-twin of an EARLIER design
        ds = FixedPointsDesignSpace(X.copy(), 2, "hyperrectangle")
        widths = rs.randint(1, 9, size=(npts, 2)).astype(float)
        for k, r in enumerate(ds.confidence_regions):
            r.lower, r.upper = np.zeros(2), widths[k].copy()
        diag = np.linalg.norm(widths, axis=1)
        perm = rs.permutation(npts)
        try:
            n += 3
            loc = [int(v) for v in ds.locate_points(X[perm])]
            if loc != [int(v) for v in perm]:
                bad.append({"kind": "locate-points", "X": X.tolist(), "query": perm.tolist(), "expected": perm.tolist(), "got": loc})
                continue
            got = np.asarray(MaxDiagonalAcquisition(ds).forward(X[perm]), dtype=float)
            if got.shape != (npts,) or not np.allclose(got, diag[perm], rtol=1e-12, atol=0):
                bad.append({"kind": "diagonal-of-own-region", "X": X.tolist(), "query": perm.tolist(), "expected": diag[perm].tolist(), "got": got.tolist()})
                continue
            sub = sorted(int(v) for v in rs.choice(npts, size=max(2, npts // 2), replace=False))
            cand, _ = optimize_acqf_discrete(MaxDiagonalAcquisition(ds), 1, choices=X[sub])
            best = [k for k in sub if diag[k] == max(diag[sub])]
            hit = [k for k in sub if np.array_equal(X[k], np.asarray(cand)[0])]
            if not hit or hit[0] not in best:
                bad.append({"kind": "argmax-of-own-region", "X": X.tolist(), "active": sub, "expected_one_of": best, "got": hit})
        except Exception as e:
            bad.append({"kind": "own-region-exception", "X": X.tolist(), "error": repr(e)[:200]})
    return n, bad


def run(ctx):
    import vopy.algorithms  # noqa: F401
    n_own, bad_own = _own_region_leg(ctx.seed)
    for b in bad_own:
        ctx.violation("acq-%s" % b["kind"], b, "MaxDiagonalAcquisition / locate_points: %s" % str(b)[:400])
    ctx.evaluations += n_own
    AC.abstract_model(ctx, ALGS, N=3, batch=2)
    if ctx.tier == "thorough":
        AC.abstract_model(ctx, [a for a in ALGS if a in ("PaVeBa", "PaVeBaGP", "PaVeBaPartialGP")], N=4, batch=3, maxround=2)
    AC.run_traces(ctx, KIND, PROP)
    ctx.rule = ("abstract model: all relations over 3 (thorough: 4) designs; traces: one per configuration of the driver matrix "
                "(algorithm x order x confidence type x batch x budget), every run_one_step() validated; non-trivial = distinct "
                "(algorithm, pre-state, relations, requests) steps")
    ctx.assumptions += ["relations of float regions are tri-valued with tolerance 1e-6 x scale; non-robust pairs are resolved existentially",
                        "the regions displayed after a step are the regions its decisions used (regions are written only by modeling)"]


def replay(body):
    if "cfg" not in body.get("case", {}):
        return not _own_region_leg(0)[1]
    return AC.replay_case(body, PROP)

"""Shared driver of C02 / C03 / C06 / C07: (1) TLC on the abstract run model VOAlgoAbs, (2) real executions of the
algorithm classes recorded by harness.algotrace and validated by spec/VOTraceAlgo.tla, (3) clause ownership."""
import copy
import json
import random

from . import algotrace as AT
from . import tlc
from .pool import pmap

OWNER = {
    "disc": "C02",
    "newp": "C03", "useful": "C03",
    "nocrash": "C06", "idle": "C06", "disjoint": "C06", "uinp": "C06", "mono": "C06", "noreturn": "C06", "round": "C06",
    "samples": "C06", "cost": "C06", "ret": "C06", "flatp": "C06",
    "accurate": "C01", "modeled": "C01",
    "sactive": "C07", "sargmax": "C07", "sdistinct": "C07", "data": "C07",
    "pess": "C02+C11",
}

ABS_CFG = """CONSTANTS
 N = %(N)d
 Alg = "%(alg)s"
 Batch = %(batch)d
 Costs <- %(costs)s
 Budget <- %(budget)s
 L = 2
 MaxRound = %(maxround)d
INIT Init
NEXT Next
CONSTRAINT Bound
INVARIANT TypeOK
INVARIANT Disjoint
INVARIANT UsefulInP2
INVARIANT NeverBack
INVARIANT GoneSplit
INVARIANT Accounting
INVARIANT DoneIff
INVARIANT DoneIff2
INVARIANT EmptyMeansDone
PROPERTY Monotone
PROPERTY IdleFixed
PROPERTY RoundTicks
CHECK_DEADLOCK FALSE
"""
ABS_MC = "---- MODULE MCAbs ----\nEXTENDS VOAlgoAbs\nNoCosts == <<>>\nC12 == <<1,2>>\nUnl == 0-1\nB4 == 4\n====\n"


def abstract_model(ctx, algs, N=3, batch=2, maxround=3):
    """leg 1: all relation configurations for N designs, every reachable (S,P,U), for each algorithm."""
    for alg in algs:
        costs, budget = ("C12", "B4") if alg in ("PaVeBaPartialGP", "DecoupledGP") else ("NoCosts", "Unl")
        cfg = ABS_CFG % dict(N=N, alg=alg, batch=batch, costs=costs, budget=budget, maxround=maxround)
        res = tlc.run("MCAbs", cfg, files={"MCAbs.tla": ABS_MC}, timeout=1200)
        ctx.add_tlc(res, "VOAlgoAbs/%s/N=%d/q=%d" % (alg, N, batch))
        if res.violated or not res.ok:
            raise tlc.MachineryError("abstract run model: %s violated for %s (%s)" % (res.violated, alg, res.error))


# ---------------------------------------------------------------------------------------------- driver matrix
def _c(alg, dataset, **kw):
    d = dict(alg=alg, dataset=dataset)
    d.update(kw)
    return d


K3 = ("W", [[1, 0], [0, 1], [1, 1]])


def matrix(kind, tier, seed):
    """list of configurations.  kind: 'elim' (C02/C03), 'run' (C06), 'sample' (C07), 'pess' (C11)."""
    q = tier == "quick"
    M = []
    if kind in ("elim", "run"):
        for o in ([("orth", 2), ("theta", 60), ("theta", 120)] if q else [("orth", 2), ("theta", 45), ("theta", 60), ("theta", 90), ("theta", 120), ("theta", 135)]):
            M.append(_c("PaVeBa", "VVD2a", order=o, eps=0.15, contraction=8))
            M.append(_c("PaVeBaGP", "VVD2a", order=o, eps=0.15, contraction=12, type="IH", max_steps=(14 if q else 40)))
            M.append(_c("VOGP", "VVD2a", order=o, eps=0.15, contraction=16, max_steps=(14 if q else 40)))
        M.append(_c("PaVeBaGP", "VVD2a", order=("theta", 60), eps=0.15, contraction=12, type="DE", max_steps=(10 if q else 30)))
        M.append(_c("PaVeBaGP", "VVD2tiny", order=("orth", 2), eps=0.3, contraction=8, type="DE", max_steps=(10 if q else 30)))
        M.append(_c("PaVeBaPartialGP", "VVD2a", order=("theta", 120), eps=0.15, contraction=12, confidence_type="hyperellipsoid", max_steps=(10 if q else 30)))
        M.append(_c("PaVeBaPartialGP", "VVD2a", order=("orth", 2), eps=0.15, contraction=12, max_steps=(12 if q else 40)))
        M.append(_c("VOGP", "VVD2a", order=K3, eps=0.15, contraction=16, max_steps=(12 if q else 40)))
        M.append(_c("EpsilonPAL", "VVD2a", eps=0.15, contraction=9, max_steps=(14 if q else 40)))
        M.append(_c("EpsilonPAL", "VVD3a", eps=0.3, contraction=9, max_steps=(10 if q else 40)))
        M.append(_c("PaVeBa", "VVD3a", order=("cone3d", "acute"), eps=0.3, contraction=8))
        M.append(_c("PaVeBa", "VVD3a", order=("ice", 45, 4), eps=0.3, contraction=8))
        M.append(_c("VOGP", "VVD3a", order=("cone3d", "obtuse"), eps=0.3, contraction=16, max_steps=(10 if q else 40)))
        M.append(_c("PaVeBaGP", "VVD3a", order=("cone3d", "right"), eps=0.3, contraction=12, type="IH", max_steps=(10 if q else 40)))
        for emp in (False, True):
            M.append(_c("Auer", "VVD2a", eps=0.15, contraction=(6 if emp else 8), empirical=emp, max_steps=60))
            M.append(_c("Auer", "VVD3a", eps=0.3, contraction=(6 if emp else 8), empirical=emp, max_steps=60))
        M.append(_c("Auer", "VVD2b", eps=0.2, contraction=5, empirical=True, max_steps=80, hetero=True))
        M.append(_c("Auer", "VVD2a", eps=0.1, contraction=3, empirical=True, max_steps=80, hetero=True))
        if not q:
            M.append(_c("PaVeBa", "Test", order=("theta", 60), eps=0.1, contraction=16))
            M.append(_c("VOGP", "Test", order=("orth", 2), eps=0.2, contraction=64, max_steps=40))
            M.append(_c("EpsilonPAL", "Test", eps=0.2, contraction=9, max_steps=40))
            M.append(_c("Auer", "Test", eps=0.2, contraction=16, empirical=True, max_steps=80, hetero=True))
            M.append(_c("PaVeBaGP", "VVD2b", order=("theta", 120), eps=0.2, contraction=16, type="DE", max_steps=30))
    if kind in ("elim", "run"):
        # lattice replays: the real classes driven by a scripted posterior (random lattice boxes / balls / ellipsoids,
        # identical, touching, nested, re-growing), integer cones so that zero-slack boundaries are decided exactly
        WI = {"orth": [[1, 0], [0, 1]], "acute": [[2, -1], [-1, 2]], "obtuse": [[2, 1], [1, 2]], "pyobt": [[3, 4], [4, 3]],
              "skew": [[3, -1], [-1, 2]]}
        reps = 1 if q else 4
        cones = list(WI)
        for rep in range(reps):
            # the PaVeBa family has three separate implementations of the same phases: each gets its own runs
            for k in range(24):
                o = ("Wint", WI[cones[k % (3 if q else 5)]])
                e = (0.5, 1.0, 2.0, 0.25)[k % 4]
                M.append(_c("PaVeBaPartialGP", "VVD2a", order=o, eps=e, script=dict(kind="rect", G=4), max_steps=30))
                M.append(_c("PaVeBa", "VVD2a", order=o, eps=e, script=dict(kind="ball", G=4), max_steps=25))
                M.append(_c("VOGP", "VVD2a", order=o, eps=e, script=dict(kind="rect", G=4), max_steps=25))
                M.append(_c("VOGP", "VVD2b", order=o, eps=e, script=dict(kind="rect", G=5), max_steps=30))
                if k < 12:
                    M.append(_c("PaVeBaGP", "VVD2a", order=o, eps=e, type="IH", script=dict(kind="rect", G=4), max_steps=25))
                if k < 8:
                    M.append(_c("EpsilonPAL", "VVD2a" if k % 2 else "VVD3a", eps=e, script=dict(kind="rect", G=4 if k % 2 else 3), max_steps=25))
                if k < 12:     # eps-PAL with a non-empty P and several candidates per round: chains "a member of P covers A, only A covers B"
                    M.append(_c("EpsilonPAL", "VVD2c" if k % 3 == 0 else "VVD2b", eps=e, batch=1 + k % 2, script=dict(kind="rect", G=5), max_steps=30))
            M.append(_c("PaVeBaGP", "VVD2a", order=("Wint", WI["obtuse"]), eps=1.0, type="DE", script=dict(kind="ell", G=4), max_steps=12))
            M.append(_c("PaVeBaGP", "VVD2a", order=("Wint", WI["acute"]), eps=0.5, type="DE", script=dict(kind="ell", G=4), max_steps=12))
            M.append(_c("PaVeBaPartialGP", "VVD2a", order=("Wint", WI["obtuse"]), eps=1.0, confidence_type="hyperellipsoid", script=dict(kind="ell", G=4), max_steps=10))
            for _ in range(30):
                M.append(_c("Auer", "VVD2a", eps=1.0, empirical=True, script=dict(kind="auer", G=4), max_steps=25))
            M.append(_c("Auer", "VVD3a", eps=1.0, empirical=True, script=dict(kind="auer", G=3), max_steps=25))
            if rep == 0:   # pinned history: widths differ per design and a discard precedes the Pareto decision (finding F6)
                M.append(_c("Auer", "VVD2a", eps=1.0, empirical=True, script=dict(kind="auer", G=4), max_steps=25, seed=10))
            # cones the symmetric ones cannot stand in for: a square matrix that is NOT symmetric (a transposed product goes unnoticed on a
            # symmetric one), more facets than objectives with ellipsoidal regions, facets with different alpha
            NS, K3I, UA = [[3, -1], [-2, 3]], [[1, 1], [1, 0], [0, 1]], [[1, 0], [-1, 1]]       # K3I: the redundant facet FIRST, so that dropping trailing facets matters
            for e in (0.5, 1.0):
                M.append(_c("VOGP", "VVD2a", order=("Wint", NS), eps=e, script=dict(kind="rect", G=4), max_steps=25))
                M.append(_c("PaVeBaGP", "VVD2a", order=("Wint", NS), eps=e, type="IH", script=dict(kind="rect", G=4), max_steps=25))
                M.append(_c("PaVeBaPartialGP", "VVD2a", order=("Wint", NS), eps=e, script=dict(kind="rect", G=4), max_steps=30))
                M.append(_c("PaVeBa", "VVD2a", order=("Wint", K3I), eps=e, script=dict(kind="ball", G=4), max_steps=25))
                M.append(_c("PaVeBaGP", "VVD2a", order=("Wint", K3I), eps=e, type="DE", script=dict(kind="ell", G=4), max_steps=12))
                M.append(_c("PaVeBaGP", "VVD2a", order=("W", UA), eps=e, type="DE", script=dict(kind="ell", G=4), max_steps=12))
                M.append(_c("PaVeBaPartialGP", "VVD2a", order=("W", UA), eps=e, confidence_type="hyperellipsoid", script=dict(kind="ell", G=4), max_steps=10))
                M.append(_c("VOGP", "VVD3a", order=("cone3d", "acute"), eps=e, script=dict(kind="rect", G=3), max_steps=20))
            M.append(_c("VOGP", "VVD2tiny", order=("Wint", WI["orth"]), eps=1.0, script=dict(kind="rect", G=2), max_steps=25))
            M.append(_c("PaVeBaGP", "VVD2tiny", order=("Wint", WI["acute"]), eps=0.0, type="IH", script=dict(kind="rect", G=2), max_steps=25))
            # batches larger than one on scripted posteriors: late-run states with few candidates and a non-empty P
            M.append(_c("VOGP", "VVD2a", order=("Wint", WI["orth"]), eps=1.0, batch=3, script=dict(kind="rect", G=4), max_steps=25))
            M.append(_c("VOGP", "VVD2a", order=("Wint", WI["acute"]), eps=0.5, batch=4, script=dict(kind="rect", G=4), max_steps=25))
            M.append(_c("EpsilonPAL", "VVD2a", eps=0.5, batch=3, script=dict(kind="rect", G=4), max_steps=25))
            M.append(_c("PaVeBaGP", "VVD2a", order=("Wint", WI["orth"]), eps=0.5, type="IH", batch=3, script=dict(kind="rect", G=4), max_steps=25))
            M.append(_c("PaVeBaPartialGP", "VVD2a", order=("Wint", WI["orth"]), eps=0.5, batch=3, script=dict(kind="rect", G=4), max_steps=25))
    if kind == "run":
        # C06: batch sizes larger than the active set, budgets, facet count != objective count, fixed rounds
        M.append(_c("VOGP", "VVD2tiny", order=("orth", 2), eps=0.3, contraction=16, batch=5, max_steps=10))
        M.append(_c("EpsilonPAL", "VVD2tiny", eps=0.3, contraction=9, batch=3, max_steps=10))
        M.append(_c("PaVeBaGP", "VVD2tiny", order=("orth", 2), eps=0.3, contraction=8, batch=6, max_steps=10))
        M.append(_c("PaVeBaPartialGP", "VVD2tiny", order=("orth", 2), eps=0.3, contraction=8, batch=3, max_steps=10))
        M.append(_c("PaVeBaGP", "VVD2a", order=K3, eps=0.15, contraction=12, type="IH", max_steps=8))
        M.append(_c("PaVeBaGP", "VVD2a", order=K3, eps=0.15, contraction=12, type="DE", max_steps=8))
        M.append(_c("PaVeBaPartialGP", "VVD2a", order=K3, eps=0.15, contraction=12, max_steps=8))
        M.append(_c("PaVeBa", "VVD2a", order=K3, eps=0.15, contraction=8))
        M.append(_c("PaVeBaPartialGP", "VVD2a", order=("orth", 2), eps=0.05, contraction=4, costs=[1, 2], budget=12, max_steps=30))
        M.append(_c("PaVeBaPartialGP", "VVD2a", order=("orth", 2), eps=0.05, contraction=4, costs=[1, 1], budget=7, max_steps=30))
        M.append(_c("PaVeBaPartialGP", "VVD2a", order=("orth", 2), eps=0.05, contraction=4, costs=[2, 3], budget=9, batch=2, max_steps=30))
        M.append(_c("DecoupledGP", "VVD2a", order=("orth", 2), costs=[1, 2], budget=8, max_steps=20))
        M.append(_c("DecoupledGP", "VVD2tiny", order=("theta", 60), costs=[1, 1], budget=5, batch=2, max_steps=20))
        # batch sizes larger than objectives x offered designs (the pooled candidate list is shorter than the batch)
        M.append(_c("DecoupledGP", "VVD2tiny", order=("orth", 2), costs=[1, 1], budget=30, batch=9, max_steps=6))
        M.append(_c("PaVeBaPartialGP", "VVD2tiny", order=("orth", 2), eps=0.3, contraction=8, batch=9, max_steps=10))
        for e in (0.25, 0.5, 1.0):
            M.append(_c("PaVeBaPartialGP", "VVD2a", order=("Wint", [[1, 0], [0, 1]]), eps=e, batch=5, script=dict(kind="rect", G=4), max_steps=30))
            M.append(_c("PaVeBaPartialGP", "VVD2a", order=("Wint", [[2, -1], [-1, 2]]), eps=e, batch=7, costs=[1, 2], budget=400, script=dict(kind="rect", G=4), max_steps=30))
        M.append(_c("NaiveElimination", "VVD2a", order=("theta", 90), eps=0.2, L=3))
        M.append(_c("NaiveElimination", "VVD3a", order=("cone3d", "acute"), eps=0.2, L=1))
        M.append(_c("NaiveElimination", "VVD2tiny", order=("theta", 45), eps=2.0, noise=0.5))      # default (theoretical) L
        M.append(_c("NaiveElimination", "VVD2tiny", order=("orth", 2), eps=0.2, L=51, max_steps=56))      # long runs: completion on round L exactly
        M.append(_c("NaiveElimination", "VVD2tiny", order=("theta", 60), eps=0.2, L=120, max_steps=125))
        M.append(_c("PaVeBa", "VVD3a", order=("ice", 30, 6), eps=0.3, contraction=8))
    if kind == "sample":
        for b in (1, 2, 3):
            M.append(_c("PaVeBaGP", "VVD2a", order=("orth", 2), eps=0.1, contraction=8, type="IH", batch=b, max_steps=(10 if q else 30)))
            M.append(_c("VOGP", "VVD2a", order=("theta", 90), eps=0.1, contraction=16, batch=b, max_steps=(10 if q else 30)))
            M.append(_c("PaVeBaPartialGP", "VVD2a", order=("orth", 2), eps=0.1, contraction=8, batch=b, costs=[1, 3], budget=40, max_steps=(10 if q else 30)))
        M.append(_c("EpsilonPAL", "VVD3a", eps=0.2, contraction=9, batch=2, max_steps=(10 if q else 30)))
        M.append(_c("PaVeBaGP", "VVD2b", order=("theta", 60), eps=0.1, contraction=8, type="DE", batch=2, max_steps=(8 if q else 30)))
        M.append(_c("PaVeBaPartialGP", "VVD3a", order=("cone3d", "right"), eps=0.2, contraction=8, batch=2, max_steps=(8 if q else 30)))
        M.append(_c("DecoupledGP", "VVD2a", order=("orth", 2), costs=[1, 2], budget=10, max_steps=20))
        M.append(_c("DecoupledGP", "VVD2tiny", order=("orth", 2), costs=[2, 1], budget=9, max_steps=20))
        M.append(_c("PaVeBa", "VVD2a", order=("theta", 60), eps=0.15, contraction=8))
        M.append(_c("Auer", "VVD2a", eps=0.15, contraction=8, max_steps=40))
        # many rounds on 32 designs: the active set shrinks to index sets whose iteration order is not ascending
        M.append(_c("PaVeBa", "Test", order=("orth", 2), eps=0.01, noise=0.1, contraction=16, max_steps=(15 if q else 40)))
        M.append(_c("PaVeBa", "Test", order=("theta", 120), eps=0.01, noise=0.1, contraction=16, max_steps=(15 if q else 40)))
        M.append(_c("Auer", "Test", eps=0.01, noise=0.1, contraction=16, max_steps=(15 if q else 40)))
        M.append(_c("Auer", "Test", eps=0.01, noise=0.1, contraction=8, empirical=True, max_steps=(15 if q else 40)))
        M.append(_c("NaiveElimination", "VVD2a", order=("orth", 2), eps=0.2, L=4))
        # scripted posteriors: the acquisition values are the scripted variances / box diagonals, so that inactive members of P often
        # have the largest value - the sampled design must still come from the active set
        WS = {"orth": [[1, 0], [0, 1]], "acute": [[2, -1], [-1, 2]], "obtuse": [[2, 1], [1, 2]]}
        for k in range(12 if q else 36):
            o = ("Wint", WS[("orth", "acute", "obtuse")[k % 3]])
            b = (1, 2, 3)[k % 3]
            e = (0.5, 1.0, 2.0)[(k // 3) % 3]
            M.append(_c("PaVeBaGP", "VVD2a", order=o, eps=e, type="IH", batch=b, script=dict(kind="rect", G=4), max_steps=20))
            M.append(_c("PaVeBaPartialGP", "VVD2a", order=o, eps=e, batch=b, costs=[1, 2], budget=60, script=dict(kind="rect", G=4), max_steps=20))
            if k < 6:      # correlated posteriors: total variance is the TRACE of the covariance, whatever its off-diagonal entries
                M.append(_c("PaVeBaGP", "VVD2a", order=o, eps=e, type="DE", batch=b, script=dict(kind="ell", G=4), max_steps=8))
            if k < 8:
                M.append(_c("VOGP", "VVD2a", order=o, eps=e, batch=b, script=dict(kind="rect", G=4), max_steps=20))
                M.append(_c("EpsilonPAL", "VVD2a", eps=e, batch=b, script=dict(kind="rect", G=4), max_steps=20))
            if k < 4:      # near-twin inputs: the diagonal read for a point is the diagonal of ITS design's region
                M.append(_c("VOGP", "VVD2near", order=o, eps=e, batch=b, script=dict(kind="rect", G=4), max_steps=20))
                M.append(_c("EpsilonPAL", "VVD2near", eps=e, batch=b, script=dict(kind="rect", G=4), max_steps=20))
    if kind == "pess":
        # C11, last sentence: the pessimistic Pareto sets of VOGP / EpsilonPAL on scripted lattice posteriors with twins (exact ties)
        WI = {"orth": [[1, 0], [0, 1]], "acute": [[2, -1], [-1, 2]], "obtuse": [[2, 1], [1, 2]]}
        for k in range(8 if q else 32):
            o = ("Wint", WI[list(WI)[k % 3]])
            e = (0.5, 1.0, 2.0, 0.25)[k % 4]
            M.append(_c("VOGP", "VVD2a" if k % 2 else "VVD2b", order=o, eps=e, batch=1 + k % 3, script=dict(kind="rect", G=4, dup=(k % 4 != 3)), max_steps=25))
            M.append(_c("EpsilonPAL", "VVD2a" if k % 2 else "VVD3a", eps=e, batch=1 + k % 2, script=dict(kind="rect", G=4 if k % 2 else 3, dup=(k % 4 != 3)), max_steps=25))
    rnd = random.Random(seed)
    out = []
    for k, c in enumerate(M):
        c = copy.deepcopy(c)
        if c.get("script") and k % 2 == 1:
            c["script"]["wander"] = True      # every other scripted run: posterior means drift, regions need not contain a fixed truth
        if c.get("script") and k % 3 != 2:
            c["script"]["poison"] = True      # frame check: regions of discarded designs are overwritten after every step
        if c.get("script") and k % 4 == 2:
            c["script"]["dup"] = True         # a quarter of the designs are exact twins of others: ties, mutual relations
        c["tid"] = k + 1
        c.setdefault("noise", 0.01)
        c.setdefault("max_steps", 60)
        c.setdefault("seed", rnd.randrange(1, 10 ** 6))
        out.append(c)
    return out


def cone_class(W):
    import numpy as np
    W = np.asarray(W, dtype=float)
    if W.shape[0] == W.shape[1] and np.allclose(W, np.eye(len(W))):
        return "orth"
    G = W @ W.T
    off = G[~np.eye(len(G), dtype=bool)]
    return "obtuse" if np.all(off > 1e-12) else "acute" if np.all(off < -1e-12) else "mixed"


def accuracy_matrix(prop, tier, seed):
    """scripted posteriors that always contain a fixed truth (10 designs), run to termination: the returned P must be accurate"""
    q = tier == "quick"
    M = []
    WI = {"orth": [[1, 0], [0, 1]], "acute": [[2, -1], [-1, 2]], "obtuse": [[2, 1], [1, 2]], "pyobt": [[3, 4], [4, 3]], "pyac": [[-3, 4], [4, -3]]}
    reps = 2 if q else 8
    for rep in range(reps):
        for e in (0.5, 1.0, 2.0):
            if prop == "C01":
                for cn in ("orth", "acute", "obtuse", "pyobt"):
                    M.append(_c("PaVeBa", "VVD2a", order=("Wint", WI[cn]), eps=e, script=dict(kind="ball", G=4), max_steps=60))
                M.append(_c("PaVeBaGP", "VVD2a", order=("Wint", WI["orth"]), eps=e, type="IH", script=dict(kind="rect", G=4), max_steps=60))
                M.append(_c("PaVeBaGP", "VVD2a", order=("W", WI["pyobt"]), eps=e, type="IH", script=dict(kind="rect", G=4), max_steps=60))
                M.append(_c("PaVeBaGP", "VVD2a", order=("W", WI["pyac"]), eps=e, type="IH", script=dict(kind="rect", G=4), max_steps=60))
                M.append(_c("PaVeBaPartialGP", "VVD2a", order=("Wint", WI["orth"]), eps=e, script=dict(kind="rect", G=4), max_steps=60))
                M.append(_c("PaVeBaGP", "VVD2a", order=("Wint", WI["obtuse"]), eps=e, type="DE", script=dict(kind="ell", G=4), max_steps=40))
                M.append(_c("PaVeBaPartialGP", "VVD2a", order=("Wint", WI["acute"]), eps=e, confidence_type="hyperellipsoid", script=dict(kind="ell", G=4), max_steps=40))
                # facets with different alpha (unit rows (1,0) and (-1,1)/sqrt 2): each facet has its own eps-slack
                M.append(_c("PaVeBaGP", "VVD2a", order=("W", [[1, 0], [-1, 1]]), eps=e, type="DE", script=dict(kind="ell", G=4), max_steps=40))
                M.append(_c("PaVeBaPartialGP", "VVD2a", order=("W", [[1, 0], [-1, 1]]), eps=e, confidence_type="hyperellipsoid", script=dict(kind="ell", G=4), max_steps=40))
                M.append(_c("Auer", "VVD2a", eps=e, empirical=False, script=dict(kind="auer", G=4, iso=True), max_steps=60))
                M.append(_c("Auer", "VVD3a", eps=e, empirical=False, script=dict(kind="auer", G=3, iso=True), max_steps=60))
                M.append(_c("Auer", "VVD2a", eps=e, empirical=True, script=dict(kind="auer", G=4), max_steps=60))
                M.append(_c("PaVeBa", "VVD3a", order=("ice", 45, 6), eps=e, script=dict(kind="ball", G=3), max_steps=60))
                M.append(_c("PaVeBa", "VVD3a", order=("cone3d", "obtuse"), eps=e, script=dict(kind="ball", G=3), max_steps=60))
                M.append(_c("PaVeBaGP", "VVD3a", order=("orth", 3), eps=e, type="IH", script=dict(kind="rect", G=3), max_steps=60))
                # twenty designs (late-run subsets whose set order is not the sorted order)
                M.append(_c("PaVeBaPartialGP", "VVD2c", order=("Wint", WI["orth"]), eps=e, script=dict(kind="rect", G=5), max_steps=80))
                M.append(_c("Auer", "VVD2c", eps=e, empirical=True, script=dict(kind="auer", G=5), max_steps=80))
            else:
                for cn in ("orth", "acute", "obtuse", "pyobt"):
                    M.append(_c("VOGP", "VVD2a", order=("Wint", WI[cn]), eps=e, script=dict(kind="rect", G=4), max_steps=60))
                M.append(_c("VOGP", "VVD2a", order=("W", [[1, 0], [0, 1], [1, 1]]), eps=e, script=dict(kind="rect", G=4), max_steps=60))
                M.append(_c("EpsilonPAL", "VVD2a", eps=e, script=dict(kind="rect", G=4), max_steps=60))
                M.append(_c("EpsilonPAL", "VVD3a", eps=e, script=dict(kind="rect", G=3), max_steps=60))
                M.append(_c("VOGP", "VVD2a", order=("Wint", WI["acute"]), eps=e, batch=2, script=dict(kind="rect", G=4), max_steps=60))
                # three objectives: cones with more (non-redundant) facets than objectives exist only from 3-D on
                M.append(_c("VOGP", "VVD3a", order=("ice", 45, 6), eps=e, script=dict(kind="rect", G=3), max_steps=60))
                M.append(_c("VOGP", "VVD3a", order=("ice", 30, 4), eps=e, script=dict(kind="rect", G=3), max_steps=60))
                M.append(_c("VOGP", "VVD3a", order=("cone3d", "acute"), eps=e, script=dict(kind="rect", G=3), max_steps=60))
                # twenty designs (late-run subsets whose set order is not the sorted order)
                M.append(_c("EpsilonPAL", "VVD2c", eps=e, script=dict(kind="rect", G=5), max_steps=80))
                M.append(_c("EpsilonPAL", "VVD2c", eps=e, batch=3, script=dict(kind="rect", G=6), max_steps=80))
                M.append(_c("VOGP", "VVD2c", order=("Wint", WI["orth"]), eps=e, script=dict(kind="rect", G=5), max_steps=80))
                M.append(_c("VOGP", "VVD2c", order=("Wint", WI["obtuse"]), eps=e, batch=2, script=dict(kind="rect", G=6), max_steps=80))
    rnd = random.Random(seed + 99)
    out = []
    for k, c in enumerate(M):
        c = copy.deepcopy(c)
        c["tid"] = k + 1
        c.setdefault("noise", 0.01)
        c["seed"] = rnd.randrange(1, 10 ** 6)
        out.append(c)
    return out


def point_twins_explain(T):
    """Known finding F14 (PaVeBa family): two designs with the SAME true value whose displayed regions are both single points dominate
    each other with zero slack and are discarded in the same round.  True iff the run contains such a round and every design the returned P
    fails to dominate is (dominated by) a member of such a pair, and no member of P violates the gap bound - any other inaccuracy is not
    explained by it and is reported under the ordinary signature."""
    F = T.get("final") or {}
    truth = T.get("truth")
    if not truth or AT.ALG_FAM[T["alg"]] != "paveba":
        return False
    P = set(F["P"])
    wd = {tuple(p) for p in F["wd"]}
    # pairs are <<j, i>> : j (weakly) dominates / exceeds i
    if any(tuple(p)[1] in P for p in F["ex"]):
        return False
    uncovered = {i for i in range(1, T["n"] + 1) if i not in P and not any((j, i) in wd for j in P)}
    twins = set()
    for s in T["steps"]:
        gone = set(s["pre"]["S"]) - set(s["post"]["S"]) - set(s["post"]["P"])
        pts = set(s.get("points", []))
        for a in gone & pts:
            for b in gone & pts:
                if a != b and truth[a - 1] == truth[b - 1]:
                    twins.add(a)
    if not twins or not uncovered:
        return False
    return all(i in twins or any((a, i) in wd for a in twins) for i in uncovered)


def accuracy_runs(ctx, prop):
    """leg for C01 / C05: the accuracy statement on runs of the real classes over 10 designs with valid scripted histories"""
    cfgs = accuracy_matrix(prop, ctx.tier, ctx.seed)
    traces = pmap(_rec, cfgs)
    rejects = AT.validate(ctx, traces, label="VOTraceAlgo/accuracy")
    byid = {T["tid"]: T for T in traces}
    judged = sum(1 for T in traces if T.get("final", {}).get("judge"))
    for tid, l, failing, rec in rejects:
        T = byid[tid]
        c = T["cfg"]
        if "modeled" in failing:
            ctx.violation("not-remodelled|%s|%s" % (c["alg"], c.get("type") or c.get("confidence_type") or c["script"]["kind"]),
                          {"cfg": c, "step": l, "pre": T["steps"][l - 1]["pre"]},
                          "%s step %d: a design that was active when the round was modelled does not display this round's posterior (%s)" % (c["alg"], l, c))
        for cl in failing:
            if cl in ("disc", "newp", "useful", "pess"):
                # the accuracy argument is "the step operators imply accuracy (TLC, tlapm)" + "the code's steps are the step operators":
                # a run of THIS check whose step deviates from the operators removes the second premise
                step = T["steps"][l - 1]
                ctx.violation("premise-" + sig_for(T, cl), {"cfg": c, "step": l, "clause": cl, "pre": step["pre"], "post": step["post"], "rel": step["rel"], "amb": step["amb"]},
                              "%s step %d of an accuracy run does not follow the specification's decision rule (clause %s): pre=%s post=%s (%s)" % (
                                  c["alg"], l, cl, step["pre"], step["post"], c))
        if "accurate" not in failing:
            continue
        if "order" not in c:
            W = [[1, 0], [0, 1]]
        elif c["order"][0] in ("W", "Wint"):
            W = c["order"][1]
        else:
            W = AT.make_order(tuple(c["order"])).ordering_cone.W
        kind = c.get("type") or ("empirical" if c.get("empirical") else c.get("confidence_type") or c["script"]["kind"])
        sig = "inaccurate|%s|%s|cone=%s" % (c["alg"], kind, cone_class(W) if "order" in c else "orth")
        if point_twins_explain(T):
            sig = "inaccurate|point-twins-discard-each-other|paveba-family"
        ctx.violation(sig, {"cfg": c, "final": T["final"], "truth": "scripted (seed)", "steps": len(T["steps"])},
                      "%s with valid displayed regions in every round (10 designs, scripted posterior) returned P=%s which is not accurate (%s)" % (
                          c["alg"], T["final"]["P"], c))
    ctx.traces += len([T for T in traces if T["steps"]])
    ctx.evaluations += sum(len(T["steps"]) for T in traces)
    ctx.extra["accuracy_runs"] = len(traces)
    ctx.extra["accuracy_runs_judged_at_termination"] = judged
    for T in traces:
        if T.get("final", {}).get("judge"):
            ctx.nontriv(("acc", T["alg"], T["final"]["P"], T["cfg"]["seed"]))
    return traces


def _rec(cfg):
    import torch
    torch.set_num_threads(1)
    return AT.record(cfg)


def sig_for(T, clause):
    c = T["cfg"]
    o = c.get("order")
    oname = "-" if o is None else (o[0] + (str(o[1]) if o[0] != "W" else "K%d" % len(o[1])))
    kind = c.get("type") or c.get("confidence_type") or ""
    return "%s|%s|%s|%s|batch=%s" % (clause, c["alg"], kind, oname, c.get("batch", 1))


def crash_sig(T):
    """signature of a crash: where it was raised (function), for the algorithm / configuration class"""
    info = T.get("exc_info", {})
    where = info.get("where", "")
    fn = ""
    for line in where.split("\n"):
        line = line.strip()
        if line.startswith("File ") and "/vopy/" in line:
            fn = line.split(" in ")[-1]
    err = info.get("error", "").split("(")[0]
    c = T["cfg"]
    o = c.get("order")
    K = None
    if o is not None:
        K = {"orth": o[1] if o[0] == "orth" else None, "theta": 2, "cone3d": 3}.get(o[0])
        if o[0] == "W":
            K = len(o[1])
        if o[0] == "ice":
            K = o[2]
    kind = c.get("type") or c.get("confidence_type") or {"PaVeBaPartialGP": "hyperrectangle", "PaVeBaGP": "IH"}.get(c["alg"], "")
    return "crash|%s|%s|in=%s|%s|KneM=%s|batch_gt_active=%s" % (
        c["alg"], kind, fn, err, (K is not None and K != T["m"]),
        c.get("batch", 1) > T["n"] or c.get("batch", 1) > 3)


def run_traces(ctx, kind, prop):
    cfgs = matrix(kind, ctx.tier, ctx.seed)
    traces = pmap(_rec, cfgs)
    for T in traces:
        if T.get("build_error"):
            sig = "build|%s|%s" % (T["cfg"]["alg"], T["build_error"].split("(")[0])
            if prop == "C06":
                ctx.violation(sig, {"cfg": T["cfg"], "error": T["build_error"]}, "constructing %s failed: %s" % (T["cfg"], T["build_error"]))
    rejects = AT.validate(ctx, traces)
    byid = {T["tid"]: T for T in traces}
    foreign = {}
    nsteps = nact = 0
    for T in traces:
        for s in T["steps"]:
            nsteps += 1
            pre, post = s["pre"], s["post"]
            moved = set(pre["S"]) - set(post["S"])
            if moved or s["req"]:
                nact += 1
            if set(pre["S"]) - set(post["S"]) - set(post["P"]):
                ctx.count("steps_with_elimination")
            if set(post["P"]) - set(pre["P"]):
                ctx.count("steps_with_new_pareto")
            if s.get("skipsets"):
                ctx.count("steps_sets_not_judged_nonrobust")
            if s.get("pess", {}).get("has"):
                ctx.count("steps_pessimistic_set_judged")
            ctx.nontriv((T["alg"], pre["S"], pre["P"], pre["U"], s["rel"], s["req"]))
    for tid, l, failing, rec in rejects:
        T = byid[tid]
        step = T["steps"][l - 1]
        for cl in failing:
            owner = OWNER.get(cl, "?")
            if cl in ("accurate", "modeled"):
                owner = "C05" if AT.ALG_FAM[T["alg"]] == "vogp" else "C01"
                if owner == prop:
                    continue        # reported by accuracy_runs of C01 / C05 with their own signatures
            if prop not in owner.split("+"):
                foreign[cl] = foreign.get(cl, 0) + 1
                continue
            if cl == "nocrash":
                sig = crash_sig(T)
                msg = "%s raised %s at step %d (%s)" % (T["alg"], T.get("exc_info", {}).get("error"), l, T["cfg"])
            else:
                sig = sig_for(T, cl)
                msg = "trace %d (%s) step %d: clause %s rejected; pre=%s post=%s req=%s" % (
                    tid, T["cfg"], l, cl, step["pre"], step["post"], step["req"])
            ctx.violation(sig, {"cfg": T["cfg"], "step": l, "clause": cl, "pre": step["pre"], "post": step["post"],
                                "rel": step["rel"], "amb": step["amb"], "req": step["req"], "acq": step["acq"],
                                "data": step["data"], "exc_info": T.get("exc_info")}, msg)
    ctx.traces += len([T for T in traces if T["steps"]])
    ctx.evaluations += nsteps
    ctx.extra["steps_validated"] = ctx.extra.get("steps_validated", 0) + nsteps
    ctx.extra["foreign_clause_rejections"] = foreign
    ctx.extra["either_pairs"] = sum(T.get("notes", {}).get("either_pairs", 0) for T in traces)
    ctx.extra["configs"] = len(cfgs)
    ctx.extra["algorithms"] = sorted({c["alg"] for c in cfgs})
    for T in traces[:2]:
        if T["steps"]:
            s = T["steps"][min(1, len(T["steps"]) - 1)]
            ctx.sample({"alg": T["alg"], "cfg": T["cfg"], "step": {k: s[k] for k in ("pre", "post", "ret", "req", "rel", "amb")}})
    return traces, rejects


def replay_case(body, prop):
    """re-run the configuration of a stored violation and report whether the same clause still fails"""
    from .core import Ctx
    case = body["case"]
    cfg = case["cfg"]
    T = AT.record(cfg)
    ctx = Ctx(prop, "quick", 0)
    if T.get("build_error"):
        print(" build error:", T["build_error"])
        return False
    rej = AT.validate(ctx, [T])
    bad = [(l, f) for _, l, f, _ in rej if case.get("clause") in f]
    for l, f in bad:
        print(" still failing: step", l, f)
    return not bad

"""C13 - Pareto-set extraction is exact for every finite set and cone.

leg 1: TLC model-checks the mask-and-compact loop of get_pareto_set as a state machine (VOPareto) for every sequence of
       <= N lattice vectors (duplicates, chains) and every cone of the list incl. a 3-facet and a non-pointed one:
       sound, covering, one representative per value, indices valid/distinct/increasing, loop invariants, termination,
       and the naive routine's theorem.
leg 2: the table of all inputs (ParetoTable, -dump) is replayed into PolyhedralConeOrder.get_pareto_set and
       get_pareto_set_naive: identical index arrays.  Randomised larger inputs (<= 300 points, integer and float,
       with duplicates) are checked against the reference evaluator's ParetoDef, itself bound to the table.
"""
import random

from . import refeval as R
from . import tlc
from .pool import chunks, pmap
from .tlaval import to_tla

CONES = {"orth": [[1, 0], [0, 1]], "acute": [[2, -1], [-1, 2]], "obtuse": [[2, 1], [1, 2]], "k3": [[1, 0], [0, 1], [1, 1]],
         "halfplane": [[1, 1]], "line": [[1, -1], [-1, 1]], "k3b": [[2, -1], [-1, 2], [1, 1]]}


def _mc(cones, base="VOPareto", name="MCPareto"):
    return "---- MODULE %s ----\nEXTENDS %s\nTheCones == {%s}\n====\n" % (name, base, ", ".join(to_tla(CONES[c]) for c in cones))


def _order(W):
    import numpy as np
    from vopy.order import PolyhedralConeOrder
    from vopy.ordering_cone import OrderingCone
    return PolyhedralConeOrder(OrderingCone(np.array(W, dtype=float)))


def _order_int(W):
    """the cone matrix as a user may give it: integer dtype (as in the OrderingCone docstring)"""
    import numpy as np
    from vopy.order import PolyhedralConeOrder
    from vopy.ordering_cone import OrderingCone
    return PolyhedralConeOrder(OrderingCone(np.array(W)))


def loop_fn(rel, n):
    """VOParetoOps!LoopFn transcribed over an arbitrary relation rel[j][i] = "j dominates i" (0-based); bound to TLC's table in _replay"""
    ip = list(range(n))
    nx = 0
    while nx < len(ip):
        vj = ip[nx]
        mask = [True if k == nx else not rel[vj][ip[k]] for k in range(len(ip))]
        before = sum(1 for k in range(nx) if mask[k])
        ip = [ip[k] for k in range(len(ip)) if mask[k]]
        nx = before + 1
    return ip


def _consistency_leg(seed):
    """The fast routine is LoopFn over the order's OWN pairwise relation: for cones whose rows are not exactly representable (bundled,
    unit-normalised) a difference lying exactly on a facet is decided by rounding, and it must be decided the way order.dominates(a, b)
    decides it - the loop may not use another arithmetic route to the same comparison."""
    import itertools
    import numpy as np
    from vopy.order import ConeOrder3D, ConeOrder3DIceCream, ConeTheta2DOrder
    rs = np.random.RandomState(seed + 5)
    orders = [("acute3d", ConeOrder3D("acute"), 3), ("obtuse3d", ConeOrder3D("obtuse"), 3), ("theta60", ConeTheta2DOrder(60), 2), ("theta90", ConeTheta2DOrder(90), 2),
              ("theta135", ConeTheta2DOrder(135), 2), ("ice45-8", ConeOrder3DIceCream(45, 8), 3)]
    bad, n = [], 0
    for name, o, d in orders:
        lat = np.array(list(itertools.product(range(4), repeat=d)), dtype=float)
        for trial in range(6):
            V = lat if trial == 0 else lat[rs.choice(len(lat), size=int(rs.randint(5, min(40, len(lat)))), replace=True)]
            if trial % 2:
                V = V / 10.0           # one-decimal data
            m = len(V)
            rel = [[bool(np.all(o.dominates(V[j], V[i]))) for i in range(m)] for j in range(m)]
            exp = loop_fn(rel, m)
            got = [int(i) for i in o.get_pareto_set(V.copy())]
            n += 1
            if got != exp:
                bad.append({"kind": "fast-vs-own-relation", "cone": name, "V": V.tolist(), "expected": exp, "got": got})
                break
    return n, bad


def _replay(rows):
    import numpy as np
    bad = []
    orders = {}
    for r in rows:
        key = str(r["W"])
        Vi = [tuple(v) for v in r["V"]]
        if loop_fn([[R.dominates(r["W"], Vi[j], Vi[i]) for i in range(len(Vi))] for j in range(len(Vi))], len(Vi)) != [k - 1 for k in r["fast"]]:
            raise tlc.MachineryError("loop_fn (harness transcription of VOParetoOps!LoopFn) disagrees with TLC on %s" % r)
        if key not in orders:
            orders[key] = (_order(r["W"]), _order_int(r["W"]))
        for scale, o in ((1.0, orders[key][0]), (0.125, orders[key][0]), (0.125, orders[key][1]), (0.3, orders[key][1])):
            V = np.array(r["V"], dtype=float) * scale
            fast = [int(i) + 1 for i in o.get_pareto_set(V.copy())]
            naive = [int(i) + 1 for i in o.get_pareto_set_naive(V.copy())]
            if fast != r["fast"]:
                bad.append({"kind": "fast", "W": r["W"], "V": r["V"], "expected": r["fast"], "got": fast})
            if naive != r["naive"]:
                bad.append({"kind": "naive", "W": r["W"], "V": r["V"], "expected": r["naive"], "got": naive})
    return bad


def _random_cases(args):
    import numpy as np
    seed, count, nmax = args
    rs = np.random.RandomState(seed)
    bad = []
    done = 0
    names = ["orth", "acute", "obtuse", "k3", "k3b"]
    sizes = [31, 32, 33, 63, 64, 65, 127, 128, 129, 130, 255, 256, 257]       # block / power-of-two boundaries, worst point last
    for it in range(count):
        W = CONES[names[rs.randint(len(names))]]
        n = int(rs.randint(1, nmax + 1))
        forced = None
        if seed % 4 == 0 and it < len(sizes):
            forced = sizes[it]
            n = forced
        dim = 2
        if rs.rand() < 0.35:          # three objectives: bundled 3-D cones and a 4-facet cone (evaluator's definition works in any dimension)
            W = [[1, -2, 4], [4, 1, -2], [-2, 4, 1]] if rs.rand() < 0.4 else [[5, 2, 8], [8, 5, 2], [2, 8, 5]] if rs.rand() < 0.5 else [[1, 0, 0], [0, 1, 0], [0, 0, 1], [1, 1, -1]]
            dim = 3
            n = min(n, 80)
        u = rs.rand()
        if u < 0.4:
            V = rs.randint(0, 6 if dim == 2 else 4, size=(n, dim)).astype(float)        # many duplicates and chains
        elif u < 0.6:
            # far from the origin relative to the gaps (un-normalised objectives): integers around +-1e6, still exact in floating point
            V = (rs.randint(0, 40, size=(n, dim)) + rs.choice([-1.0, 1.0], size=dim) * 1e6).astype(float)
        else:
            # a dyadic grid (multiples of 1/64): differences and facet functionals with small integer rows are EXACT in floating point, so
            # ties and boundary cases are decided identically by the code and by the exact reference (a decimal grid is not: 0.002 - 0.010 +
            # 0.008 is 0 on paper and +-1e-18 in floats, which made one thorough run report a boundary pair as a difference)
            V = np.round(rs.randn(n, dim) * 64) / 64
            if n > 3:
                V[rs.randint(n)] = V[rs.randint(n)]                 # a duplicate
        if forced:
            V[-1] = V.min(axis=0) - 1.0          # the last element is strictly dominated by everything (every cone here contains the diagonal)
        o = _order(W)
        fast = [int(i) for i in o.get_pareto_set(V.copy())]
        Vl = [tuple(map(float, v)) for v in V]
        pdef = set(R.pareto_def(W, Vl))
        msgs = []
        if not set(fast) <= pdef:
            msgs.append("returns a strictly dominated vector")
        if any(not any(R.dominates(W, Vl[j], Vl[i]) for j in fast) for i in range(n)):
            msgs.append("some input vector is not weakly dominated by a returned one")
        if len({Vl[i] for i in fast}) != len(fast):
            msgs.append("a value is represented twice")
        if fast != sorted(set(fast)) or any(i < 0 or i >= n for i in fast):
            msgs.append("indices not valid/distinct/increasing")
        naive = [int(i) for i in o.get_pareto_set_naive(V.copy())]
        # np.allclose in the naive routine treats values within 1e-8 as equal: inputs lie on a 1/64 grid, so it is equality
        if set(naive) != pdef or naive != sorted(naive):
            msgs.append("naive routine differs from the definition")
        if msgs:
            bad.append({"kind": "random", "W": W, "V": V.tolist(), "expected": sorted(pdef), "got": fast, "why": msgs})
        done += 1
    return done, bad


def run(ctx):
    import vopy.order  # noqa: F401
    thorough = ctx.tier == "thorough"
    cones = list(CONES) if thorough else ["orth", "acute", "obtuse", "k3", "line"]
    N, G = (5, 2) if thorough else (4, 2)
    mc = _mc(cones)
    cfg = ("CONSTANTS\n N = %d\n G = %d\n Cones <- TheCones\nINIT Init\nNEXT Next\nINVARIANT Sound\nINVARIANT Covering\nINVARIANT OncePerValue\n"
           "INVARIANT Increasing\nINVARIANT Aligned\nINVARIANT Bounded\nINVARIANT LoopIsFn\nINVARIANT NaiveThm\nPROPERTY Progress\nCHECK_DEADLOCK FALSE\n" % (N, G))
    res = tlc.run("MCPareto", cfg, files={"MCPareto.tla": mc}, timeout=3000)
    ctx.add_tlc(res, "VOPareto loop machine N<=%d G=%d" % (N, G))
    if res.violated or not res.ok:
        raise tlc.MachineryError("VOPareto theorem fails: %s %s" % (res.violated, res.error))
    # table for replay (N <= 4 always: 7380 sequences per cone)
    tcfg = "CONSTANTS\n N = %d\n G = %d\n Cones <- TheCones\nINIT TInit\nNEXT TNext\n" % (min(N, 4), G)
    tres, states = tlc.dump_states("MCParetoT", tcfg, files={"MCParetoT.tla": _mc(cones, "ParetoTable", "MCParetoT")}, timeout=3000)
    ctx.add_tlc(tres, "ParetoTable")
    tlc.must_pass(tres, "ParetoTable")
    rows = [{"W": [list(w) for w in st["cfg"]["W"]], "V": [list(v) for v in st["cfg"]["V"]],
             "fast": list(st["ans"]["fast"]), "naive": list(st["ans"]["naive"]), "def": sorted(st["ans"]["def"])} for st in states]
    # bind the reference evaluator's ParetoDef to the table
    for r in rows:
        if sorted(i + 1 for i in R.pareto_def(r["W"], [tuple(v) for v in r["V"]])) != r["def"]:
            raise tlc.MachineryError("refeval.pareto_def disagrees with TLC on %s" % r)
    bad = [b for bs in pmap(_replay, chunks(rows, 64)) for b in bs]
    out = pmap(_random_cases, [(ctx.seed * 1000 + k, (60 if thorough else 12), (300 if thorough else 120)) for k in range(32)])
    nrand = sum(d for d, _ in out)
    bad += [b for _, bs in out for b in bs]
    ncons, badc = _consistency_leg(ctx.seed)
    for b in badc:
        ctx.violation("pareto-%s|%s" % (b["kind"], b["cone"]), b, "get_pareto_set on the bundled cone %s returned %s; the loop over the order's own pairwise relation gives %s (vectors %s)" % (
            b["cone"], b["got"], b["expected"], str(b["V"])[:200]))
    ctx.extra["consistency_cases"] = ncons
    for b in bad:
        ctx.violation("pareto-%s|K=%d" % (b["kind"], len(b["W"])), b,
                      "get_pareto_set%s on cone %s, vectors %s returned %s, specification says %s %s" % (
                          "_naive" if b["kind"] == "naive" else "", b["W"], str(b["V"])[:200], b["got"], b["expected"], b.get("why", "")))
    ctx.traces = len(rows) + nrand
    ctx.evaluations = 4 * len(rows) + 2 * nrand + ncons
    for r in rows:
        if len(r["def"]) < len(r["V"]):
            ctx.nontriv((r["W"], r["V"]))
    ctx.exhaustive = True
    ctx.extra.update({"table_rows": len(rows), "random_cases": nrand})
    ctx.rule = ("every sequence of <= %d vectors on the %dx%d lattice x cones %s (table rows replayed into both routines at two scales) "
                "plus %d random inputs of up to %d points; non-trivial = inputs with at least one dominated vector" % (min(N, 4), G + 1, G + 1, cones, nrand, 300 if thorough else 120))
    for r in rows[100:103]:
        ctx.sample(r)
    ctx.assumptions += ["naive routine's covering/keep-all-duplicates theorem is stated for pointed cones (np.allclose = equality on the lattice)"]


def replay(body):
    c = body["case"]
    if c["kind"] == "fast-vs-own-relation":
        return not _consistency_leg(0)[1]
    if c["kind"] == "random":
        import numpy as np
        o = _order(c["W"])
        V = np.array(c["V"], dtype=float)
        fast = [int(i) for i in o.get_pareto_set(V.copy())]
        pdef = set(R.pareto_def(c["W"], [tuple(map(float, v)) for v in V]))
        ok = set(fast) <= pdef and len({tuple(V[i]) for i in fast}) == len(fast)
        return ok
    return not _replay([{"W": c["W"], "V": c["V"], "fast": c["expected"] if c["kind"] == "fast" else [int(i) + 1 for i in _order(c["W"]).get_pareto_set(__import__("numpy").array(c["V"], dtype=float))],
                         "naive": c["expected"] if c["kind"] == "naive" else [int(i) + 1 for i in _order(c["W"]).get_pareto_set_naive(__import__("numpy").array(c["V"], dtype=float))]}])

"""Tri-valued (True / False / None = not robust) region relations on FLOAT regions, for traces of real runs.

Every decision is obtained by evaluating the exact procedures of harness.refeval (transcribed from
spec/VOGeometry.tla) twice, with the slack moved by -tau and +tau per unit facet normal: if both
evaluations agree the relation is robust, otherwise it is reported as None ("either") and the trace
specification accepts both resolutions.  tau = 1e-6 * max(1, largest coordinate magnitude) is fixed a priori.
"""
import itertools
import math

import numpy as np

from . import refeval as R

TAU = 1e-6


def _tri(hi_true, lo_true):
    """hi_true: answer with the relation made harder by tau; lo_true: made easier by tau."""
    if hi_true and lo_true:
        return True
    if not hi_true and not lo_true:
        return False
    return None


def _scale(*arrs):
    m = 1.0
    for a in arrs:
        a = np.asarray(a, dtype=float)
        if a.size:
            m = max(m, float(np.max(np.abs(a))))
    return m


def _integral(*arrs):
    """exactly representable lattice data: multiples of 1/8 of moderate size (sums and products with small integers are exact)"""
    for a in arrs:
        a = np.asarray(a, dtype=float)
        if a.size and (np.any(a * 8 != np.round(a * 8)) or np.max(np.abs(a)) > 2 ** 20):
            return False
    return True


class Cone:
    def __init__(self, W):
        self.W = np.asarray(W, dtype=float)
        self.K, self.m = self.W.shape
        self.norms = np.linalg.norm(self.W, axis=1)
        self.Wl = [tuple(float(x) for x in w) for w in self.W]


# ------------------------------------------------------------------ rectangles
def box_of(region):
    return np.asarray(region.lower, dtype=float), np.asarray(region.upper, dtype=float)


def rect_dom(cone, b1, b2, s):
    """every point of b2 shifted by s dominates every point of b1  (Dom).  margin = min facet functional / |w|"""
    lo1, hi1 = b1
    lo2, hi2 = b2
    s = np.broadcast_to(np.asarray(s, dtype=float), lo1.shape)
    # min over vertex pairs of w.(z' + s - z) is attained coordinate-wise; enumerate the vertices (spec: Verts x Verts)
    V1 = np.array(list(itertools.product(*zip(lo1, hi1))))
    V2 = np.array(list(itertools.product(*zip(lo2, hi2))))
    d = (V2[None, :, :] + s[None, None, :] - V1[:, None, :]).reshape(-1, len(lo1))
    if _integral(cone.W, lo1, hi1, lo2, hi2, s):
        # exactly representable data (lattice replays): the boundary itself counts as dominated (C09), no tolerance
        return bool((d @ cone.W.T).min() >= 0)
    marg = (d @ cone.W.T / cone.norms[None, :]).min()
    t = TAU * _scale(lo1, hi1, lo2, hi2, s)
    return True if marg > t else (False if marg < -t else None)


def _feasible(cone, lo, hi, rhs):
    """exists d in [lo,hi] with W d >= rhs  (FeasibleV, generic dimension) with cheap sound shortcuts."""
    W = cone.W
    # necessary: each facet separately attainable on the box
    up = np.where(W > 0, hi[None, :], lo[None, :])
    if np.any((W * up).sum(axis=1) < rhs):
        return False
    # sufficient: a box vertex or the centre is feasible
    cands = list(itertools.product(*zip(lo, hi))) + [tuple((lo + hi) / 2)]
    C = np.array(cands)
    if np.any(np.all(C @ W.T >= rhs[None, :], axis=1)):
        return True
    tol = 1e-12 * _scale(lo, hi, rhs)
    return R.feasible(tuple(lo), tuple(hi), cone.Wl, tuple(rhs), tol=tol, sing=1e-14)


def rect_cov(cone, b1, b2, s):
    """some z in b1, z' in b2 with z' - z - s in C  (Cov)"""
    lo1, hi1 = b1
    lo2, hi2 = b2
    s = np.broadcast_to(np.asarray(s, dtype=float), lo1.shape)
    lo, hi = lo2 - hi1, hi2 - lo1
    rhs = cone.W @ s
    t = TAU * _scale(lo1, hi1, lo2, hi2, s) * cone.norms
    return _tri(_feasible(cone, lo, hi, rhs + t), _feasible(cone, lo, hi, rhs - t))


def rect_pdom(cone, b1, b2):
    """every point of b1 dominates some point of b2  (PDom): every vertex v of b1 has d in [v-hi2, v-lo2] with W d >= 0"""
    lo1, hi1 = b1
    lo2, hi2 = b2
    t = TAU * _scale(lo1, hi1, lo2, hi2) * cone.norms
    hard = easy = True
    for v in itertools.product(*zip(lo1, hi1)):
        v = np.array(v)
        if hard and not _feasible(cone, v - hi2, v - lo2, t):
            hard = False
        if easy and not _feasible(cone, v - hi2, v - lo2, -t):
            easy = False
        if not easy:
            break
    return _tri(hard, easy)


# ------------------------------------------------------------------ ellipsoids
def ell_of(region):
    return (np.asarray(region.center, dtype=float), np.asarray(region.sigma, dtype=float), float(np.asarray(region.alpha)))


def _h(e, u):
    """support function of the ellipsoid minus its centre part: alpha * sqrt(u' S u)"""
    q = float(u @ e[1] @ u)
    return e[2] * math.sqrt(max(q, 0.0))


def ell_dom(cone, e1, e2, a):
    """EllDom: for every facet  w.(c2 - c1) + a_n >= a1 sqrt(w'S1w) + a2 sqrt(w'S2w)"""
    a = np.broadcast_to(np.asarray(a, dtype=float), (cone.K,))
    marg = min((float(w @ (e2[0] - e1[0])) + an - _h(e1, w) - _h(e2, w)) / nw for w, an, nw in zip(cone.W, a, cone.norms))
    t = TAU * _scale(e1[0], e2[0], a, e1[2] * math.sqrt(np.max(np.diag(e1[1]))), e2[2] * math.sqrt(np.max(np.diag(e2[1]))))
    return True if marg > t else (False if marg < -t else None)


def ell_cov_margin(cone, e1, e2, a):
    """min over lam in the simplex of  h_M(W' lam) - lam.a  normalised by |W' lam| , where M = E2 (-) E1.
    The regions can be covered iff the minimum is >= 0 (separating-functional duality, spec: EllCovSeparated).
    Convex in lam: golden section for K = 2, multi-start SLSQP for K >= 3 (any negative value found is a valid
    certificate of 'not covered' regardless of optimality)."""
    a = np.broadcast_to(np.asarray(a, dtype=float), (cone.K,))
    dc = e2[0] - e1[0]

    def g(lam):
        u = cone.W.T @ lam
        nu = float(np.linalg.norm(u))
        if nu < 1e-300:
            return float("inf")
        return (float(u @ dc) + _h(e1, u) + _h(e2, u) - float(lam @ a)) / nu

    best = min(g(np.eye(cone.K)[k]) for k in range(cone.K))
    if cone.K == 2:
        lo, hi = 0.0, 1.0
        gr = (math.sqrt(5) - 1) / 2
        f = lambda x: g(np.array([x, 1 - x]))
        c, d = hi - gr * (hi - lo), lo + gr * (hi - lo)
        for _ in range(80):
            if f(c) < f(d):
                hi = d
            else:
                lo = c
            c, d = hi - gr * (hi - lo), lo + gr * (hi - lo)
        best = min(best, f((lo + hi) / 2))
    else:
        from scipy.optimize import minimize
        starts = [np.ones(cone.K) / cone.K] + [0.5 * np.eye(cone.K)[k] + 0.5 * np.ones(cone.K) / cone.K for k in range(cone.K)]
        for x0 in starts:
            r = minimize(lambda x: g(np.abs(x) / max(np.abs(x).sum(), 1e-300)), x0, method="Nelder-Mead",
                         options={"xatol": 1e-10, "fatol": 1e-12, "maxiter": 2000})
            best = min(best, float(r.fun))
    return best


def ell_cov(cone, e1, e2, a):
    marg = ell_cov_margin(cone, e1, e2, a)
    t = 10 * TAU * _scale(e1[0], e2[0], a)
    return True if marg > t else (False if marg < -t else None)


def ball_cov(cone, e1, e2, a):
    """identity-shaped ellipsoids: exact nearest-point rule (BallCov)"""
    a = np.broadcast_to(np.asarray(a, dtype=float), (cone.K,))
    d2 = R.dist2_to_polyhedron(cone.Wl, tuple(float(x) for x in a), tuple(float(x) for x in (e2[0] - e1[0])))
    marg = (e1[2] + e2[2]) - math.sqrt(d2)
    t = TAU * _scale(e1[0], e2[0], a)
    return True if marg > t else (False if marg < -t else None)


def is_identity(S):
    return S.shape[0] == S.shape[1] and np.array_equal(S, np.eye(S.shape[0]))


# ------------------------------------------------------------------ Auer (componentwise order, centre +- own widths)
def auer_rel(ci, bi, cj, bj, eps):
    """returns (gt, mc, nd_ji) tri-valued:  gt: m(i,j) > b_i+b_j (all k) ; mc: M(i,j) < b_i+b_j (all k) ;
    nd: M(j,i) <= b_i + b_j (all k)   - exactly the three comparisons of auer.py with each design's OWN widths."""
    beta = bi + bj
    t = TAU * _scale(ci, cj, beta)
    if _integral(ci, cj, bi, bj, eps):
        # lattice replays: every quantity is exact, so the strict / non-strict comparisons of the rule are decided exactly
        m_ij = max(0.0, float(np.min(cj - ci)))
        M_ij = max(0.0, float(np.max((ci + eps) - cj)))
        M_ji = max(0.0, float(np.max((cj + eps) - ci)))
        return bool(np.all(m_ij > beta)), bool(np.all(M_ij < beta)), bool(np.all(M_ji <= beta))
    m_ij = max(0.0, float(np.min(cj - ci)))
    M_ij = max(0.0, float(np.max((ci + eps) - cj)))
    M_ji = max(0.0, float(np.max((cj + eps) - ci)))

    def cmp_all(val, op):
        # all_k ( val op beta_k )
        if op == ">":
            d = val - beta
        else:
            d = beta - val
        if np.all(d > t):
            return True
        if np.any(d < -t):
            return False
        return None

    gt = cmp_all(m_ij, ">")
    mc = cmp_all(M_ij, "<")
    # "<=" : robustly true if beta - val > t for all k, robustly false if some < -t
    nd = cmp_all(M_ji, "<")
    return gt, mc, nd

#!/bin/sh
# Offline setup: parse every TLA+ module, byte-compile the harness, check the interpreter sees /repo.
set -e
cd "$(dirname "$0")"
mkdir -p evidence replay
for f in spec/*.tla; do
  ( cd spec && java -cp /opt/veriftools/tla/tla2tools.jar:/opt/veriftools/tla/CommunityModules-deps.jar tla2sany.SANY "$(basename "$f")" >/tmp/sany.$$ 2>&1 ) || { cat /tmp/sany.$$; rm -f /tmp/sany.$$; exit 1; }
  if grep -qiE "^(\*\*\* )?(Errors|Abort)|Fatal errors" /tmp/sany.$$; then cat /tmp/sany.$$; rm -f /tmp/sany.$$; exit 1; fi
done
rm -f /tmp/sany.$$
/venv/bin/python -m compileall -q harness
/venv/bin/python -W ignore -c "import vopy, os; assert os.path.realpath(vopy.__file__).startswith('/repo/'), vopy.__file__; print('setup ok: vopy from', vopy.__file__)"

----------------------------- MODULE VOAlgoAbs -----------------------------
(* The nine algorithms' run_one_step() as a phase-grained state machine over an ABSTRACT environment:
   at the phase where the code reads the displayed confidence regions, the relations are chosen by
   \E over ALL relations on the design ids - strictly more general than any geometry or model.
   The invariants are the run-level guarantees of C06 (and the set-level parts of C02/C03).          *)
EXTENDS VOAlgo
CONSTANTS N, Alg, Batch, Costs, Budget, L, MaxRound
\* Alg \in {"PaVeBa","PaVeBaGP","PaVeBaPartialGP","Auer","VOGP","EpsilonPAL","NaiveElimination","DecoupledGP"}
\* Costs: per-objective integer costs (sequence), or <<>> for none;  Budget: integer, 0 - 1 = unlimited

D      == 1..N
Pairs  == { p \in D \X D : p[1] # p[2] }
Rels   == SUBSET Pairs
Fam    == CASE Alg \in {"PaVeBa","PaVeBaGP","PaVeBaPartialGP"} -> "paveba"
            [] Alg \in {"VOGP","EpsilonPAL"} -> "vogp"
            [] Alg = "Auer" -> "auer"
            [] OTHER -> "flat"
M      == IF Costs = <<>> THEN 2 ELSE Len(Costs)
Unlim  == Budget < 0

VARIABLES S, P, U, round, samples, cost, ret, pc, rel, rows, spent, gone
vars == <<S, P, U, round, samples, cost, ret, pc, rel, rows, spent, gone>>
\* rows / spent : ghost - what the problem was really asked for;  gone : ghost - every design that ever left S
\* rel : the relations read this round (dom, cov, pdom / gt, mc, nd)

NoRel == [a |-> {}, b |-> {}, c |-> {}]
Init == /\ S = (IF Fam = "flat" THEN {} ELSE D) /\ P = {} /\ U = {} /\ round = 0 /\ samples = 0 /\ cost = 0
        /\ ret = FALSE /\ pc = "idle" /\ rel = NoRel /\ rows = 0 /\ spent = 0 /\ gone = {}

Guard == CASE Alg = "NaiveElimination" -> round = L
           [] Alg = "DecoupledGP" -> (~Unlim /\ cost >= Budget)
           [] Alg = "PaVeBaPartialGP" -> (S = {} \/ (~Unlim /\ cost >= Budget))
           [] OTHER -> S = {}

Active == IF Fam = "paveba" THEN S \cup U ELSE IF Fam = "vogp" THEN S \cup P ELSE IF Fam = "auer" THEN S ELSE D

\* ---- entry of run_one_step()
Idle   == /\ pc = "idle" /\ Guard /\ ret' = TRUE
          /\ UNCHANGED <<S, P, U, round, samples, cost, pc, rel, rows, spent, gone>>
Begin  == /\ pc = "idle" /\ ~Guard
          /\ pc' = (IF Fam = "vogp" THEN "model" ELSE "evaluate")
          /\ round' = (IF Fam = "vogp" THEN round ELSE round + 1)       \* VOGP / eps-PAL bump the round at the end
          /\ UNCHANGED <<S, P, U, samples, cost, ret, rel, rows, spent, gone>>

\* ---- evaluating: who is sampled, what is counted
SeqsOf(cand, n) == { s \in [1..n -> cand] : \A a, b \in 1..n : a # b => s[a] # s[b] }
Evaluate ==
  /\ pc = "evaluate"
  /\ \/ /\ Alg \in {"PaVeBa", "Auer", "NaiveElimination"}                 \* every active design once
        /\ samples' = samples + Cardinality(Active) /\ rows' = rows + Cardinality(Active)
        /\ UNCHANGED <<cost, spent>>
     \/ /\ Alg \in {"PaVeBaGP", "VOGP", "EpsilonPAL"}                       \* top-q by acquisition among the active designs
        /\ \E rank \in [Active -> 1..2] : \E ch \in SeqsOf(Active, Min2(Batch, Cardinality(Active))) :
              /\ IsTopQ(ch, Active, rank, Batch)
              /\ samples' = samples + Len(ch) /\ rows' = rows + Len(ch)
        /\ UNCHANGED <<cost, spent>>
     \/ /\ Alg \in {"PaVeBaPartialGP", "DecoupledGP"}                       \* top-q (design, objective) pairs
        /\ LET cand == Active \X (1..M)   n == Min2(Batch, Cardinality(cand)) IN
           \E rank \in [cand -> 1..2] : \E ch \in SeqsOf(cand, n) :
              /\ IsTopQ(ch, cand, rank, Batch)
              /\ samples' = samples + n /\ rows' = rows + n
              /\ LET c == IF Costs = <<>> THEN 0
                          ELSE (IF n >= 1 THEN Costs[ch[1][2]] ELSE 0) + (IF n >= 2 THEN Costs[ch[2][2]] ELSE 0)
                               + (IF n >= 3 THEN Costs[ch[3][2]] ELSE 0) IN
                 cost' = cost + c /\ spent' = spent + c
  /\ pc' = (IF Fam = "vogp" THEN "finish" ELSE IF Fam = "flat" THEN "finish" ELSE "model")
  /\ UNCHANGED <<S, P, U, round, ret, rel, gone>>

\* ---- modeling: the design space displays new regions for the active designs.  The relations the coming phases
\*      read are functions of those regions; here each phase draws the relations it reads from ALL relations
\*      (per phase, which is also the grain of the code); the cover relation is kept from Pareto to Useful.
Model ==
  /\ pc = "model" /\ pc' = "discard"
  /\ UNCHANGED <<S, P, U, round, samples, cost, ret, rel, rows, spent, gone>>

Discard ==
  /\ pc = "discard"
  /\ \E a \in Rels : \E c \in (IF Fam = "vogp" THEN Rels ELSE {{}}) :
       LET Dd == CASE Fam = "paveba" -> PavebaDisc(S, U, a)
                   [] Fam = "vogp"   -> VogpDisc(S, P, c, a)
                   [] OTHER          -> AuerDisc(S, a) IN
       /\ S' = S \ Dd /\ gone' = gone \cup Dd
  /\ pc' = "pareto"
  /\ UNCHANGED <<P, U, round, samples, cost, ret, rel, rows, spent>>

Pareto ==
  /\ pc = "pareto"
  /\ \E b \in Rels : \E c \in (IF Fam = "auer" THEN Rels ELSE {{}}) :
       LET NP == CASE Fam = "paveba" -> PavebaNewP(S, U, b)
                   [] Fam = "vogp"   -> VogpNewP(S, P, b)
                   [] OTHER          -> AuerNewP(S, AuerP1(S, b), c) IN
       /\ S' = S \ NP /\ P' = P \cup NP /\ gone' = gone \cup NP
       /\ rel' = (IF Fam = "paveba" THEN [a |-> {}, b |-> b, c |-> {}] ELSE NoRel)
  /\ pc' = (IF Fam = "paveba" THEN "useful" ELSE IF Fam = "vogp" THEN (IF S' # {} THEN "evaluate" ELSE "finish") ELSE "finish")
  /\ UNCHANGED <<U, round, samples, cost, ret, rows, spent>>

Useful ==
  /\ pc = "useful"
  /\ U' = PavebaUseful(S, P, rel.b)
  /\ rel' = NoRel
  /\ pc' = "finish"
  /\ UNCHANGED <<S, P, round, samples, cost, ret, rows, spent, gone>>

Finish ==
  /\ pc = "finish"
  /\ round' = (IF Fam = "vogp" THEN round + 1 ELSE round)
  /\ ret' = (CASE Alg = "NaiveElimination" -> round' = L
               [] Alg = "DecoupledGP" -> (~Unlim /\ cost >= Budget)
               [] Alg = "PaVeBaPartialGP" -> (S = {} \/ (~Unlim /\ cost >= Budget))
               [] OTHER -> S = {})
  /\ pc' = "idle"
  /\ UNCHANGED <<S, P, U, samples, cost, rel, rows, spent, gone>>

Next == Idle \/ Begin \/ Evaluate \/ Model \/ Discard \/ Pareto \/ Useful \/ Finish
Spec == Init /\ [][Next]_vars
Bound == round <= MaxRound

----------------------------------------------------------------------------
TypeOK     == /\ S \subseteq D /\ P \subseteq D /\ U \subseteq D /\ round \in Nat /\ samples \in Nat /\ cost \in Nat
Disjoint   == S \cap P = {}
UsefulInP  == (pc \in {"idle", "evaluate", "model", "discard"}) => U \subseteq P        \* between rounds and until P changes
UsefulInP2 == pc = "idle" => U \subseteq P
NeverBack  == gone \cap S = {}                                                        \* a design that left S never returns
GoneSplit  == gone = D \ S \/ Fam = "flat"                                             \* everything that left is accounted
Accounting == samples = rows /\ cost = spent                                          \* reported = requested
DoneIff    == pc = "idle" /\ round > 0 /\ ret => Guard                               \* completion reported only when the guard holds
DoneIff2   == (pc = "idle" /\ round > 0 /\ Guard) => ret                              \* ... and always when it holds
Monotone   == [][S' \subseteq S /\ P \subseteq P']_vars
IdleFixed  == [][(pc = "idle" /\ Guard) => UNCHANGED <<S, P, U, round, samples, cost, rows, spent>>]_vars
RoundTicks == [][round' \in {round, round + 1}]_vars
RoundPerStep == [][(pc # "idle" /\ pc' = "idle") => TRUE]_vars
EmptyMeansDone == (pc = "idle" /\ round > 0 /\ Fam # "flat" /\ S = {}) => ret
=============================================================================

------------------------------ MODULE VOArith ------------------------------
(* Integer / rational helpers shared by every VOPy specification module.     *)
(* Vectors are sequences of integers of length 2 or 3.  Rationals are pairs  *)
(* <<n, d>> with d > 0 compared by cross-multiplication.  All magnitudes are *)
(* kept far below 2^31 (TLC integers are 32-bit).                            *)
EXTENDS Integers, Sequences, FiniteSets

Abs(x)    == IF x < 0 THEN -x ELSE x
Max2(a,b) == IF a > b THEN a ELSE b
Min2(a,b) == IF a < b THEN a ELSE b
Sq(x)     == x * x
Sgn(x)    == IF x > 0 THEN 1 ELSE IF x < 0 THEN -1 ELSE 0

Dot(a,b)   == IF Len(a) = 2 THEN a[1]*b[1] + a[2]*b[2]
              ELSE a[1]*b[1] + a[2]*b[2] + a[3]*b[3]
Add(a,b)   == [k \in 1..Len(a) |-> a[k] + b[k]]
Sub(a,b)   == [k \in 1..Len(a) |-> a[k] - b[k]]
Scale(c,a) == [k \in 1..Len(a) |-> c * a[k]]
Neg(a)     == [k \in 1..Len(a) |-> -a[k]]
ZeroV(m)   == [k \in 1..m |-> 0]
NormSq(a)  == Dot(a,a)
LeqV(a,b)  == \A k \in 1..Len(a) : a[k] <= b[k]
Det2(a,b)  == a[1]*b[2] - a[2]*b[1]

\* rationals
RLe(p,q) == p[1]*q[2] <= q[1]*p[2]
RLt(p,q) == p[1]*q[2] <  q[1]*p[2]
REq(p,q) == p[1]*q[2] =  q[1]*p[2]
RMax(S)  == CHOOSE p \in S : \A q \in S : RLe(q,p)
RMin(S)  == CHOOSE p \in S : \A q \in S : RLe(p,q)

\* A >= sqrt(B) + sqrt(C)  and  A > sqrt(B) + sqrt(C)  for integers, B >= 0, C >= 0
GeSqrtSum(A,B,C) == /\ A >= 0 /\ A*A - B - C >= 0 /\ Sq(A*A - B - C) >= 4*B*C
GtSqrtSum(A,B,C) == /\ A > 0
                    /\ \/ (B = 0 /\ A*A > C) \/ (C = 0 /\ A*A > B)
                       \/ (B > 0 /\ C > 0 /\ A*A - B - C > 0 /\ Sq(A*A - B - C) > 4*B*C)

SeqToSet(s) == { s[k] : k \in 1..Len(s) }
=============================================================================

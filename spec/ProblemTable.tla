---------------------------- MODULE ProblemTable ----------------------------
EXTENDS VOProblem
CONSTANTS Part, Designs, Q, QOut, Draws, Chols, Cols
VARIABLES cfg, ans
Init ==
  \/ /\ Part = "nearest"
     /\ cfg \in [X : Designs, q : ((0-QOut)..(Q+QOut)) \X ((0-QOut)..(Q+QOut))]   \* queries also OUTSIDE the design box
     /\ ans = Nearest(cfg.X, cfg.q)
  \/ /\ Part = "noise"
     /\ cfg \in [z : Draws \X Draws, L : Chols]
     /\ ans = NoiseVec(cfg.z, cfg.L)
  \/ /\ Part = "scale"
     /\ cfg \in Cols
     /\ ans = [mm |-> MinMax(cfg), st |-> Standard(cfg)]
Next == UNCHANGED <<cfg, ans>>
NearestThm == Part = "nearest" => /\ \A j \in 1..Len(cfg.X) : Dist2(cfg.X[ans], cfg.q) <= Dist2(cfg.X[j], cfg.q)
                                  /\ \A j \in 1..(ans-1) : Dist2(cfg.X[j], cfg.q) > Dist2(cfg.X[ans], cfg.q)
ScaleThm   == Part = "scale" => MinMaxRange(cfg) /\ MinMaxHits(cfg) /\ StdMeanZero(cfg) /\ StdUnitVar(cfg)
InverseThm == Part = "scale" => \A lo \in -1..1 : \A hi \in (lo+1)..3 : \A i \in 1..Len(cfg) :
                 /\ REq(UnnormR(NormR(<<cfg[i], 1>>, lo, hi), lo, hi), <<cfg[i], 1>>)
                 /\ REq(NormR(UnnormR(<<cfg[i], 3>>, lo, hi), lo, hi), <<cfg[i], 3>>)
=============================================================================

------------------------------- MODULE VOCone -------------------------------
(* Polyhedral ordering cones  C = { x : W x >= 0 }  and the order they induce *)
(* (vopy/ordering_cone.py::OrderingCone.is_inside, vopy/order.py::dominates). *)
(* W is a sequence of K integer rows of length m (m = 2, or 3).              *)
EXTENDS VOArith

InCone(W,x)      == \A n \in 1..Len(W) : Dot(W[n], x) >= 0
InInterior(W,x)  == \A n \in 1..Len(W) : Dot(W[n], x) > 0
Dominates(W,a,b) == InCone(W, Sub(a,b))                 \* a dominates b  <=>  a - b \in C
StrictDom(W,a,b) == Dominates(W,a,b) /\ ~ Dominates(W,b,a)

Lattice2(G) == ((0-G)..G) \X ((0-G)..G)
Lattice3(G) == ((0-G)..G) \X ((0-G)..G) \X ((0-G)..G)

\* pointedness: by definition on a lattice, and by rank (2-D: two independent rows)
PointedDef(W,L) == \A x \in L : (InCone(W,x) /\ InCone(W,Neg(x))) => x = ZeroV(Len(x))
PointedRank2(W) == \E a, b \in 1..Len(W) : Det2(W[a], W[b]) # 0

\* the 2-D theta-cone: directions within theta/2 of the diagonal, tan(theta/2) = p/q
\* (x,y) inside  <=>  q*|y - x| <= p*(x + y)
Theta2DInside(p,q,x)  == q * Abs(x[2] - x[1]) <= p * (x[1] + x[2])
Theta2DW(p,q)         == << <<p - q, p + q>>, <<p + q, p - q>> >>    \* integer multiples of get_2d_w rows
=============================================================================

------------------------------ MODULE EllTable ------------------------------
(* Table of the ellipsoid predicates (C09, C10) over centres on a grid, a set of
   integer shapes and per-facet slacks.  Ellipsoid e = [c, S, a] = { x : (x-c)' S^-1 (x-c) <= a^2 }.
   Balls are the shapes with S = I (PaVeBa's regions).                                 *)
EXTENDS VOGeometry, TLC
CONSTANTS G, C1s, Shapes, Cones, Slacks, R, LamMax     \* Shapes: set of [S |-> 2x2, a |-> alpha]; Slacks: set of per-facet tuples
VARIABLES cfg, ans

IsBall(e)  == e.S = << <<1,0>>, <<0,1>> >>
E(c, sh)   == [c |-> c, S |-> sh.S, a |-> sh.a]
Shift(a,t) == [n \in 1..Len(a) |-> a[n] + t]
SlackFor(W, sl) == [n \in 1..Len(W) |-> sl[IF n <= Len(sl) THEN n ELSE Len(sl)]]
Init ==
  /\ cfg \in [cone : Cones, c1 : C1s, s1 : Shapes, c2 : (0..G) \X (0..G), s2 : Shapes, sl : Slacks]
  /\ LET W == cfg.cone  e1 == E(cfg.c1, cfg.s1)  e2 == E(cfg.c2, cfg.s2)  a == SlackFor(W, cfg.sl)
         D == EllDiffs(e1, e2, R) IN
     ans = [ dom    |-> << EllDom(W, e1, e2, Shift(a,1)), EllDom(W, e1, e2, a), EllDom(W, e1, e2, Shift(a,-1)) >>,
             domlat |-> EllDomLatticeD(W, D, a),
             cov    |-> << EllCov3D(W, e1, e2, D, Shift(a,-1), LamMax), EllCov3D(W, e1, e2, D, a, LamMax),
                           EllCov3D(W, e1, e2, D, Shift(a,1), LamMax) >>,
             ball   |-> IF IsBall(e1) /\ IsBall(e2)
                        THEN << BallDom(W, e1.c, e1.a, e2.c, e2.a, a), BallCov(W, e1.c, e1.a, e2.c, e2.a, a) >>
                        ELSE << EllDom(W, e1, e2, a), FALSE >> ]
Next == UNCHANGED <<cfg, ans>>

\* dom[1] is the relaxed answer (slack + 1), dom[3] the strict one (slack - 1)
DomMono     == (ans.dom[3] => ans.dom[2]) /\ (ans.dom[2] => ans.dom[1])
DomSound    == ans.dom[2] => ans.domlat                      \* support-function test implies the lattice forall-forall
BallDomThm  == (IsBall(cfg.s1) /\ IsBall(cfg.s2)) => ans.ball[1] = ans.dom[2]
BallDomDef  == (IsBall(cfg.s1) /\ IsBall(cfg.s2) /\ cfg.cone = << <<1,0>>, <<0,1>> >>) => ans.dom[2] = ans.domlat
BallCovThm  == (IsBall(cfg.s1) /\ IsBall(cfg.s2) /\ ans.cov[2] # "B") => (ans.ball[2] = (ans.cov[2] = "T"))
CovConsist  == /\ (ans.cov[3] = "T" => ans.cov[2] = "T") /\ (ans.cov[2] = "T" => ans.cov[1] = "T")
               /\ (ans.cov[1] = "F" => ans.cov[2] = "F") /\ (ans.cov[2] = "F" => ans.cov[3] = "F")
=============================================================================

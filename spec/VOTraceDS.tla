----------------------------- MODULE VOTraceDS -----------------------------
(* Trace validation of design-space updates (C14): the harness drives the real design-space classes with random
   integer prediction tables / index lists / scale forms and logs every update and the regions displayed afterwards;
   this specification recomputes the regions with the update rule of VODesignSpace from ITS OWN state and compares. *)
EXTENDS VOGeometry, TLC, Json, IOUtils
Traces == ndJsonDeserialize(IOEnv.TRACE_FILE)
VARIABLES tid, l, reg
vars == <<tid, l, reg>>
Huge == 1000
NewBox(p, row) == [lo |-> <<p[1] - p[3]*row[1], p[2] - p[4]*row[2]>>, hi |-> <<p[1] + p[3]*row[1], p[2] + p[4]*row[2]>>]   \* p = <<m1, m2, s1, s2>>
Apply(it, old, p, row) == IF it THEN Intersect(old, NewBox(p, row)) ELSE NewBox(p, row)
RECURSIVE Upd(_,_,_,_,_,_)
Upd(it, r, idx, pred, rows, k) == IF k > Len(idx) THEN r
                                  ELSE Upd(it, [r EXCEPT ![idx[k]] = Apply(it, @, pred[k], rows[k])], idx, pred, rows, k + 1)
RowsOf(form, sc, n) == CASE form = "scalar" -> [k \in 1..n |-> <<sc[1], sc[1]>>]
                         [] form = "vector" -> [k \in 1..n |-> <<sc[1], sc[2]>>]
                         [] OTHER -> sc
Box(q) == [lo |-> <<q[1], q[2]>>, hi |-> <<q[3], q[4]>>]
Init == /\ tid \in 1..Len(Traces) /\ l = 1
        /\ reg = [d \in 1..Traces[tid].nd |-> [lo |-> <<-Huge, -Huge>>, hi |-> <<Huge, Huge>>]]
Next == /\ l <= Len(Traces[tid].steps) + 1
        /\ LET T == Traces[tid] IN
           IF l = Len(T.steps) + 1 THEN PrintT(<<"DONE", T.tid, Len(T.steps)>>) /\ l' = l + 1 /\ UNCHANGED <<tid, reg>>
           ELSE LET e == T.steps[l]
                    exp == Upd(T.iter, reg, e.idx, e.pred, RowsOf(e.form, e.scale, Len(e.idx)), 1)
                    got == [d \in 1..T.nd |-> Box(e.post[d])]
                    c == [ regions   |-> \A d \in 1..T.nd : (d \in { e.idx[k] : k \in 1..Len(e.idx) }) => got[d] = exp[d],
                           untouched |-> \A d \in 1..T.nd : (d \notin { e.idx[k] : k \in 1..Len(e.idx) }) => got[d] = reg[d],
                           ordered   |-> \A d \in 1..T.nd : LeqV(got[d].lo, got[d].hi),
                           noexc     |-> e.exc = 0 ] IN
                /\ (IF c.regions /\ c.untouched /\ c.ordered /\ c.noexc THEN TRUE ELSE PrintT(<<"REJECT", T.tid, l, c>>))
                /\ reg' = (IF e.exc = 0 THEN got ELSE exp) /\ l' = l + 1 /\ UNCHANGED tid
Spec == Init /\ [][Next]_vars
=============================================================================

-------------------------------- MODULE VOModel --------------------------------
(* The data flow of the GP model wrappers of vopy/models/gpytorch.py.
   Samples are drawn from a fixed pool (ids 1..NS; the harness gives each an input and a value vector; two ids share an input).
   held[k] : the sequence of sample ids the wrapper reports for objective k          (train_inputs / train_targets)
   cond[k] : the sequence the wrapped GP is conditioned on = held[k] as of the last update()
   predict() must return the exact posterior given cond - the harness computes it in closed form from cond.
   Kind = "multi" (Independent / Correlated: every sample carries all objectives) or "list" (per-objective model list).   *)
EXTENDS VOArith, TLC
CONSTANTS Kind, M, NS, MaxLen, MinCond
VARIABLES held, cond, built, op, trained
vars == <<held, cond, built, op, trained>>
Obj == 1..M
Empty == [k \in Obj |-> <<>>]
Total(h) == LET RECURSIVE F(_)  F(k) == IF k = 0 THEN 0 ELSE Len(h[k]) + F(k-1) IN F(M)
Init == trained = FALSE /\ held = Empty /\ cond = Empty /\ built = FALSE /\ op = [name |-> "init", ids |-> <<>>, objs |-> <<>>, n |-> 0]

RECURSIVE AddTo(_,_,_)
AddTo(h, ids, objs) == IF ids = <<>> THEN h ELSE AddTo([h EXCEPT ![Head(objs)] = Append(@, Head(ids))], Tail(ids), Tail(objs))
Batches == UNION { [1..n -> 1..NS] : n \in 1..2 }
DoAdd ==
  \/ /\ Kind = "multi"
     /\ \E b \in Batches : /\ Total(held) + M * Len(b) <= MaxLen
                           /\ held' = [k \in Obj |-> held[k] \o b]
                           /\ op' = [name |-> "add", ids |-> b, objs |-> <<>>, n |-> 0]
  \/ /\ Kind = "list"
     /\ \E b \in Batches : \E o \in [1..Len(b) -> Obj] :
           /\ Total(held) + Len(b) <= MaxLen
           /\ held' = AddTo(held, b, o)
           /\ op' = [name |-> "add", ids |-> b, objs |-> o, n |-> IF \A i \in 1..Len(b) : o[i] = o[1] THEN 1 ELSE 0]   \* n = 1: may be given as a single int
  /\ UNCHANGED <<cond, built, trained>>
DoUpdate == /\ \A k \in Obj : Len(held[k]) >= MinCond \/ Kind = "list" \/ MinCond = 0
            /\ cond' = held /\ built' = TRUE /\ op' = [name |-> "update", ids |-> <<>>, objs |-> <<>>, n |-> 0] /\ UNCHANGED <<held, trained>>
DoClear  == /\ held' = Empty /\ op' = [name |-> "clear", ids |-> <<>>, objs |-> <<>>, n |-> 0] /\ UNCHANGED <<cond, built, trained>>
DoPredict == /\ built /\ \E n \in {1, 2, 5} : op' = [name |-> "predict", ids |-> <<>>, objs |-> <<>>, n |-> n]
             /\ UNCHANGED <<held, cond, built, trained>>
\* train(): the hyper-parameters are re-fitted on the data the GP is conditioned on; WHAT it is conditioned on does not change, and the
\* next prediction must be the posterior under the NEW kernel (no stale cache).  At most once per behaviour, with >= 2 samples per objective.
DoTrain == /\ built /\ ~trained /\ \A k \in Obj : Len(cond[k]) >= 2
           /\ trained' = TRUE /\ op' = [name |-> "train", ids |-> <<>>, objs |-> <<>>, n |-> 0]
           /\ UNCHANGED <<held, cond, built>>
Next == DoAdd \/ DoUpdate \/ DoClear \/ DoPredict \/ DoTrain
Spec == Init /\ [][Next]_vars

\* theorems of the data flow
CondOnlyAtUpdate == [][cond' # cond => (cond' = held /\ op'.name = "update")]_vars
UpToDateAfterUpdate == op.name = "update" => cond = held
ClearThenUpdateForgets == [][(op.name = "clear" /\ op'.name = "update") => cond' = Empty]_vars
ObjLocal == [][(Kind = "list" /\ op'.name = "add") => \A k \in Obj : (k \notin SeqToSet(op'.objs)) => held'[k] = held[k]]_vars
BagOf(s) == [i \in 1..NS |-> Cardinality({ j \in 1..Len(s) : s[j] = i })]
View == <<[k \in Obj |-> BagOf(held[k])], [k \in Obj |-> BagOf(cond[k])], built, op.name, trained>>
=============================================================================

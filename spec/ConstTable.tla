----------------------------- MODULE ConstTable -----------------------------
EXTENDS VOConeConst
CONSTANTS E, K, G, Part, PQ, FirstRows
VARIABLES cfg, ans
Rows == ((0-E)..E) \X ((0-E)..E)
L2 == Lattice2(G)
Good(Wc) == PointedRank2(Wc) /\ HasInterior(Wc, Lattice2(3)) /\ \A n \in 1..Len(Wc) : Wc[n] # <<0,0>>
Init == \/ /\ Part = "cone"
           /\ cfg \in { f \in [1..K -> Rows] : f[1] \in FirstRows /\ Good(f) }
           /\ ans = [alpha |-> [n \in 1..K |-> AlphaSq(cfg, n)], zstar |-> ZStar(cfg), d1sq |-> D1Sq(cfg)]
        \/ /\ Part = "theta"
           /\ cfg \in PQ
           /\ ans = [alpha |-> [n \in 1..2 |-> AlphaSq(Theta2DW(cfg[1], cfg[2]), n)], beta |-> BetaTheta(cfg[1], cfg[2]),
                     zstar |-> ZStar(Theta2DW(cfg[1], cfg[2])), d1sq |-> D1Sq(Theta2DW(cfg[1], cfg[2]))]
Next == UNCHANGED <<cfg, ans>>
AlphaThm == Part = "cone" => \A n \in 1..K : AlphaOptimal(cfg, n, L2)
ZThm     == Part = "cone" => ZOptimal(cfg, L2, 2) /\ ZOptimal(cfg, L2, 3)
\* ordering complexity is the reciprocal of alpha: beta^2 * alpha^2 = 1   (theta-cones, both facets by symmetry)
BetaThm  == Part = "theta" => \A n \in 1..2 : Sq(ans.beta[1]) * ans.alpha[n][1] = Sq(ans.beta[2]) * ans.alpha[n][2]
ThetaDiag == Part = "theta" => ans.zstar[1] = ans.zstar[2]            \* u* of a theta-cone is the diagonal
=============================================================================

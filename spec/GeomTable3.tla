----------------------------- MODULE GeomTable3 -----------------------------
(* Rectangle predicates in three objectives under the componentwise order (orthant),
   the only 3-D cone of the exact geometric specification (DESIGN 2).            *)
EXTENDS VOGeometry, TLC
CONSTANTS G, Slacks, Cones3     \* Cones3: extra 3-D integer cones for the forall-forall predicate (vertex pairs are exact in any dimension)
VARIABLES cfg, ans
Orth3 == << <<1,0,0>>, <<0,1,0>>, <<0,0,1>> >>
C3 == (0..G) \X (0..G) \X (0..G)
Boxes3 == { b \in [lo : C3, hi : C3] : LeqV(b.lo, b.hi) }
One3 == <<1,1,1>>
Init ==
  /\ cfg \in [r1 : Boxes3, r2 : Boxes3, s : Slacks]
  /\ LET r1 == cfg.r1  r2 == cfg.r2  s == cfg.s IN
     ans = [ dom    |-> << DomT(Orth3, r1, r2, s, -1), Dom(Orth3, r1, r2, s), DomT(Orth3, r1, r2, s, 1) >>,
             domdef |-> DomDef(Orth3, r1, r2, s),
             cov    |-> << CovOrth(r1, r2, Sub(s, One3)), CovOrth(r1, r2, s), CovOrth(r1, r2, Add(s, One3)) >>,
             covdef |-> CovOrthDef(r1, r2, s),
             pdom   |-> << LeqV(Sub(r2.lo, One3), r1.lo), LeqV(r2.lo, r1.lo), LeqV(Add(r2.lo, One3), r1.lo) >>,
             pdomdef |-> \A v \in Pts(r1) : \E z \in Pts(r2) : LeqV(z, v) ]
Next == UNCHANGED <<cfg, ans>>
\* general 3-D cones: is_dominated only (definition over all lattice points = vertex pairs)
InitC == /\ cfg \in [W : Cones3, r1 : Boxes3, r2 : Boxes3, s : Slacks]
         /\ ans = [ dom    |-> << DomT(cfg.W, cfg.r1, cfg.r2, cfg.s, -1), Dom(cfg.W, cfg.r1, cfg.r2, cfg.s), DomT(cfg.W, cfg.r1, cfg.r2, cfg.s, 1) >>,
                    domdef |-> DomDef(cfg.W, cfg.r1, cfg.r2, cfg.s) ]
DomThmC == ans.dom[2] = ans.domdef /\ (ans.dom[3] => ans.dom[2]) /\ (ans.dom[2] => ans.dom[1])
DomThm  == ans.dom[2] = ans.domdef
CovThm  == ans.cov[2] = ans.covdef
PDomThm == ans.pdom[2] = ans.pdomdef
=============================================================================

------------------------------ MODULE VOMetrics ------------------------------
(* Evaluation metrics (vopy/utils/utils.py::get_smallmij/get_delta/is_covered/get_uncovered_*, vopy/utils/evaluate.py)
   as exact rationals on integer 2-D cones and lattice value sets.  Rows of W are integer; the code is given the
   unit-normalised rows, so every facet functional is divided by |w_n| = sqrt(NormSq(W[n])).                       *)
EXTENDS VOConeConst, VOParetoOps

\* m(i,j)^2 = min_n max(0, w_n.(vj - vi))^2 / (|w_n|^2 alpha_n^2)        (get_smallmij, squared)
\* (A = <<AlphaSq(W,1), ..>> is passed in so that it is computed once per configuration)
AlphaVec(W) == [n \in 1..Len(W) |-> AlphaSq(W, n)]
SmallMSqA(W, A, vi, vj) == RMin({ LET d == Dot(W[n], Sub(vj, vi)) IN
                                   << Sq(Max2(0, d)) * A[n][2], NormSq(W[n]) * A[n][1] >> : n \in 1..Len(W) })
GapSqA(W, A, V, i) == RMax({ SmallMSqA(W, A, V[i], V[j]) : j \in 1..Len(V) })     \* get_delta, squared (j = i contributes 0)
SmallMSq(W, vi, vj) == SmallMSqA(W, AlphaVec(W), vi, vj)
GapSq(W, V, i) == GapSqA(W, AlphaVec(W), V, i)
\* definition of m(i,j): the largest s with  vi + s u  dominated by vj  for EVERY unit direction u of the cone.
\* s is feasible iff for all lattice directions u in C and facets n :  w_n.(vj - vi) >= s w_n.u / |u|
MFeasible(W, vi, vj, s2, L) == s2[1] > 0 => \A u \in L : (InCone(W, u) /\ u # <<0,0>>) =>
     \A n \in 1..Len(W) : LET d == Dot(W[n], Sub(vj, vi))  wu == Dot(W[n], u) IN
         d >= 0 /\ (wu > 0 => s2[1] * Sq(wu) <= Sq(d) * NormSq(u) * s2[2])
\* ... and it is the largest: some facet is tight in the direction that attains alpha_n (by AlphaOptimal, C17)
GapZeroIffNotInteriorDominated(W, V, i) == (GapSq(W, V, i)[1] = 0) <=> ~ \E j \in 1..Len(V) : InInterior(W, Sub(V[j], V[i]))

\* squared distance from c to { y : W y >= a } (rational): the point itself, facet feet, vertices  (cf. VOGeometry!BallCov)
Dist2Cands(W, a, c) ==
  LET Feas(px,py,q) == \A n \in 1..Len(W) : W[n][1]*px + W[n][2]*py >= a[n]*q IN
  (IF Feas(c[1], c[2], 1) THEN { <<0, 1>> } ELSE {})
  \cup { LET den == NormSq(W[n])  num == a[n] - Dot(W[n], c) IN
         IF den > 0 /\ Feas(c[1]*den + num*W[n][1], c[2]*den + num*W[n][2], den) THEN << num*num, den >> ELSE <<-1, 1>> : n \in 1..Len(W) }
  \cup { IF Det2(W[n], W[k]) = 0 THEN <<-1, 1>> ELSE
         LET v == NormP(<< a[n]*W[k][2] - W[n][2]*a[k], W[n][1]*a[k] - a[n]*W[k][1], Det2(W[n], W[k]) >>) IN
         IF Feas(v[1], v[2], v[3]) THEN << Sq(v[1] - c[1]*v[3]) + Sq(v[2] - c[2]*v[3]), Sq(v[3]) >> ELSE <<-1, 1>> :
         n \in 1..Len(W), k \in 1..Len(W) }
Dist2Poly(W, a, c) == RMin({ x \in Dist2Cands(W, a, c) : x[1] >= 0 })
\* utils.is_covered(vi, vj, eps, W): some y in C with |y| <= eps and vj + y - vi in C
\* <=> dist(0, { y : W y >= max(0, W(vi - vj)) }) <= eps       (W with unit rows: scale invariant per row)
CoverA(W, vi, vj) == [n \in 1..Len(W) |-> Max2(0, Dot(W[n], Sub(vi, vj)))]
EpsCovered(W, vi, vj, e2) == RLe(Dist2Poly(W, CoverA(W, vi, vj), <<0,0>>), e2)
\* definition on the lattice refined by Lq: a witness y / Lq
EpsCoveredWitness(W, vi, vj, e2, L, Lq) == \E y \in L :
     /\ InCone(W, y) /\ NormSq(y) * e2[2] <= e2[1] * Sq(Lq)
     /\ \A n \in 1..Len(W) : Dot(W[n], y) + Lq * Dot(W[n], Sub(vj, vi)) >= 0
DistMinimal(W, vi, vj, L, Lq) == LET d2 == Dist2Poly(W, CoverA(W, vi, vj), <<0,0>>) IN
     \A y \in L : (InCone(W, y) /\ \A n \in 1..Len(W) : Dot(W[n], y) + Lq * Dot(W[n], Sub(vj, vi)) >= 0)
                    => NormSq(y) * d2[2] >= d2[1] * Sq(Lq)

\* epsilon-F1 (calculate_epsilonF1_score) as the rational << 2 tp, 2 tp + fp + uncovered >> ; pred is a sequence of indices
EpsF1(W, V, true, pred, e2) ==
  LET A    == AlphaVec(W)
      ps   == SeqToSet(pred)
      miss == true \ ps
      unc  == Cardinality({ i \in miss : ~ \E j \in ps : EpsCovered(W, V[i], V[j], e2) })
      tp   == Cardinality({ k \in 1..Len(pred) : RLe(GapSqA(W, A, V, pred[k]), e2) })
      fp   == Len(pred) - tp
  IN << 2 * tp, 2 * tp + fp + unc >>

\* lattice hyper-volume of the W-image of a set of value vectors w.r.t. the component-wise minimum of ALL images (2 facets)
Img(W, v) == << Dot(W[1], v), Dot(W[2], v) >>
HV(W, V, idx) == LET I == { Img(W, V[k]) : k \in 1..Len(V) }
                     r1 == CHOOSE a \in { p[1] : p \in I } : \A b \in { p[1] : p \in I } : a <= b
                     r2 == CHOOSE a \in { p[2] : p \in I } : \A b \in { p[2] : p \in I } : a <= b
                     top1 == CHOOSE a \in { p[1] : p \in I } : \A b \in { p[1] : p \in I } : a >= b
                     top2 == CHOOSE a \in { p[2] : p \in I } : \A b \in { p[2] : p \in I } : a >= b IN
                 Cardinality({ c \in (r1..(top1-1)) \X (r2..(top2-1)) : \E k \in idx : c[1] < Img(W, V[k])[1] /\ c[2] < Img(W, V[k])[2] })
=============================================================================

---------------------------- MODULE VODesignSpace ----------------------------
(* vopy/design_space.py::{FixedPointsDesignSpace, AdaptivelyDiscretizedDesignSpace}.update together with
   RectangularConfidenceRegion.update / intersect and EllipsoidalConfidenceRegion.update.
   The model's prediction for design d is  pred[d] = [m |-> mean vector, s |-> std vector]  (integers; covariance = diag(s^2)).
   update(model, scale, idx): for the k-th entry of idx the region of design idx[k] becomes
        mean[idx[k]] -+ std[idx[k]] * scaleRow(k)          (hyper-rectangle; intersected with the old one if iterative)
        (centre mean, covariance, alpha = scale)           (ellipsoid; scalar scale only)
   and NO other region changes.  scale is a scalar, a per-objective vector, or one row per ENTRY OF idx (by position).   *)
EXTENDS VOGeometry, TLC
CONSTANTS ND, Means, Stds, Scales, Iter, MaxIdx
D == 1..ND
Pred == [m : Means \X Means, s : Stds \X Stds]
VARIABLES reg, op
vars == <<reg, op>>

Huge == 1000
Init == /\ reg = [d \in D |-> [lo |-> <<-Huge, -Huge>>, hi |-> <<Huge, Huge>>]]
        /\ op = [idx |-> <<>>, pred |-> <<>>, form |-> "none", scale |-> <<>>]

NewBox(p, row) == [lo |-> <<p.m[1] - p.s[1]*row[1], p.m[2] - p.s[2]*row[2]>>, hi |-> <<p.m[1] + p.s[1]*row[1], p.m[2] + p.s[2]*row[2]>>]
Apply(old, p, row) == IF Iter THEN Intersect(old, NewBox(p, row)) ELSE NewBox(p, row)
RECURSIVE Upd(_,_,_,_,_)
Upd(r, idx, pred, rows, k) == IF k > Len(idx) THEN r
                              ELSE Upd([r EXCEPT ![idx[k]] = Apply(@, pred[idx[k]], rows[k])], idx, pred, rows, k + 1)
\* the three forms of `scale`, expanded to one row per entry of idx
RowsOf(form, sc, n) == CASE form = "scalar"  -> [k \in 1..n |-> <<sc, sc>>]
                         [] form = "vector"  -> [k \in 1..n |-> sc]
                         [] OTHER            -> sc                       \* "matrix": already one row per entry
Update == \E n \in 1..MaxIdx : \E idx \in { s \in [1..n -> D] : \A a, b \in 1..n : a # b => s[a] # s[b] } :
          \E pred \in [SeqToSet(idx) -> Pred] : \E form \in {"scalar", "vector", "matrix"} :
          \E sc \in (CASE form = "scalar" -> Scales [] form = "vector" -> Scales \X Scales [] OTHER -> [1..n -> Scales \X Scales]) :
             /\ reg' = Upd(reg, idx, pred, RowsOf(form, sc, n), 1)
             /\ op' = [idx |-> idx, pred |-> pred, form |-> form, scale |-> sc]
Next == Update
Spec == Init /\ [][Next]_vars

Ordered     == \A d \in D : LeqV(reg[d].lo, reg[d].hi)                                   \* lower <= upper, always
Untouched   == [][\A d \in D : d \notin SeqToSet(op'.idx) => reg'[d] = reg[d]]_vars
Centred     == [][~Iter => \A k \in 1..Len(op'.idx) : LET d == op'.idx[k] IN
                     Add(reg'[d].lo, reg'[d].hi) = Scale(2, op'.pred[d].m)]_vars       \* centred at the predictive mean
Shrinks     == [][Iter => \A d \in D : (LeqV(reg[d].lo, reg'[d].lo) /\ LeqV(reg'[d].hi, reg[d].hi))
                                      \/ ~ Overlap(reg[d], reg'[d]) \/ reg'[d] = reg[d] \/ d \in SeqToSet(op'.idx)]_vars
InterRule   == [][Iter => \A k \in 1..Len(op'.idx) : LET d == op'.idx[k]
                         nb == NewBox(op'.pred[d], RowsOf(op'.form, op'.scale, Len(op'.idx))[k]) IN
                     IF Overlap(reg[d], nb) THEN (LeqV(reg[d].lo, reg'[d].lo) /\ LeqV(nb.lo, reg'[d].lo) /\ LeqV(reg'[d].hi, reg[d].hi) /\ LeqV(reg'[d].hi, nb.hi))
                     ELSE reg'[d] = nb]_vars
View == reg
=============================================================================

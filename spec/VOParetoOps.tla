---------------------------- MODULE VOParetoOps ----------------------------
(* Operators of Pareto-set extraction (vopy/order.py) shared by the loop machine and the table. 1-based indices. *)
EXTENDS VOCone, TLC

\* filter a sequence by a boolean mask (numpy boolean indexing)
RECURSIVE Filt(_,_)
Filt(s, mask) == IF s = <<>> THEN <<>> ELSE (IF Head(mask) THEN <<Head(s)>> ELSE <<>>) \o Filt(Tail(s), Tail(mask))
CountTrue(mask, upto) == Cardinality({ k \in 1..upto : mask[k] })

\* the same loop as a function (used by the table and tied to the machine by LoopIsFn)
RECURSIVE LoopFn(_,_,_,_)
LoopFn(Wc, ip, e, nx) ==
   IF nx > Len(e) THEN ip
   ELSE LET vj == e[nx]
            mask == [i \in 1..Len(e) |-> IF i = nx THEN TRUE ELSE ~ Dominates(Wc, vj, e[i])] IN
        LoopFn(Wc, Filt(ip, mask), Filt(e, mask), CountTrue(mask, nx - 1) + 2)
ParetoFast(Wc, Vs) == LoopFn(Wc, [k \in 1..Len(Vs) |-> k], Vs, 1)
\* get_pareto_set_naive: keep i unless some element of a DIFFERENT value dominates it
RECURSIVE SeqOfSet(_)
SeqOfSet(Sx) == IF Sx = {} THEN <<>> ELSE LET m == CHOOSE x \in Sx : \A y \in Sx : x <= y IN <<m>> \o SeqOfSet(Sx \ {m})
ParetoNaive(Wc, Vs) == SeqOfSet({ i \in 1..Len(Vs) : ~ \E j \in 1..Len(Vs) : Vs[j] # Vs[i] /\ Dominates(Wc, Vs[j], Vs[i]) })
\* the definition
ParetoDef(Wc, Vs) == { i \in 1..Len(Vs) : ~ \E j \in 1..Len(Vs) : StrictDom(Wc, Vs[j], Vs[i]) }

=============================================================================

----------------------------- MODULE VOGeometry -----------------------------
(* Confidence regions and the three region predicates of                    *)
(* vopy/confidence_region.py, each given by DEFINITION (quantifier over     *)
(* lattice points) and by exact PROCEDURE (what the code computes).         *)
(* Boxes: [lo |-> v, hi |-> v].  Balls: centre + radius.  Ellipsoids:       *)
(* [c |-> v, S |-> <<<<a,b>>,<<b,d>>>>, a |-> alpha]  = { x : (x-c)' S^-1 (x-c) <= alpha^2 }. *)
EXTENDS VOCone

Verts(b) == IF Len(b.lo) = 2
            THEN { <<x,y>> : x \in {b.lo[1], b.hi[1]}, y \in {b.lo[2], b.hi[2]} }
            ELSE { <<x,y,z>> : x \in {b.lo[1], b.hi[1]}, y \in {b.lo[2], b.hi[2]}, z \in {b.lo[3], b.hi[3]} }
Pts(b)   == IF Len(b.lo) = 2
            THEN (b.lo[1]..b.hi[1]) \X (b.lo[2]..b.hi[2])
            ELSE (b.lo[1]..b.hi[1]) \X (b.lo[2]..b.hi[2]) \X (b.lo[3]..b.hi[3])
Contains(b,p) == LeqV(b.lo, p) /\ LeqV(p, b.hi)
Boxes2(G)   == { b \in [lo : (0..G) \X (0..G), hi : (0..G) \X (0..G)] : LeqV(b.lo, b.hi) }
BoxesPos2(G) == { b \in Boxes2(G) : b.lo[1] < b.hi[1] /\ b.lo[2] < b.hi[2] }

---------------------------------------------------------------------------
(* is_dominated, rectangles: every point of r2 shifted by s dominates every point of r1 *)
DomDef(W, r1, r2, s) == \A z \in Pts(r1) : \A zp \in Pts(r2) : InCone(W, Sub(Add(zp, s), z))
Dom(W, r1, r2, s)    == \A z \in Verts(r1) : \A zp \in Verts(r2) : InCone(W, Sub(Add(zp, s), z))
\* margin variant: every facet functional of z' + s - z is at least t (t < 0 relaxed, t > 0 strict)
DomT(W, r1, r2, s, t) == \A z \in Verts(r1) : \A zp \in Verts(r2) : \A n \in 1..Len(W) : Dot(W[n], Sub(Add(zp, s), z)) >= t

---------------------------------------------------------------------------
(* exact feasibility of { d \in [lo,hi] : W d >= t } in the plane: a non-empty bounded polygon has a
   vertex, every vertex is the intersection of two constraint lines, hence rational <<px,py,q>>, q > 0 *)
NormPt(c)  == IF c[3] < 0 THEN <<-c[1], -c[2], -c[3]>> ELSE c
Lines(lo,hi,W,t) == { <<1,0,lo[1]>>, <<1,0,hi[1]>>, <<0,1,lo[2]>>, <<0,1,hi[2]>> }
                    \cup { <<W[n][1], W[n][2], t[n]>> : n \in 1..Len(W) }
DetL(l1,l2)  == l1[1]*l2[2] - l1[2]*l2[1]
Isect(l1,l2) == NormPt(<< l1[3]*l2[2] - l1[2]*l2[3], l1[1]*l2[3] - l1[3]*l2[1], DetL(l1,l2) >>)
FeasPt(c,lo,hi,W,t) == /\ lo[1]*c[3] <= c[1] /\ c[1] <= hi[1]*c[3]
                       /\ lo[2]*c[3] <= c[2] /\ c[2] <= hi[2]*c[3]
                       /\ \A n \in 1..Len(W) : W[n][1]*c[1] + W[n][2]*c[2] >= t[n]*c[3]
FeasibleV(lo,hi,W,t) == LET LS == Lines(lo,hi,W,t) IN
    \E l1 \in LS : \E l2 \in LS : DetL(l1,l2) # 0 /\ FeasPt(Isect(l1,l2), lo, hi, W, t)
\* the definition, on the lattice refined by L (exact when L is a multiple of every 2x2 minor)
FeasibleDef(lo,hi,W,t,L) == \E x \in (lo[1]*L)..(hi[1]*L) : \E y \in (lo[2]*L)..(hi[2]*L) :
    \A n \in 1..Len(W) : W[n][1]*x + W[n][2]*y >= t[n]*L
WT(W,s) == [n \in 1..Len(W) |-> Dot(W[n], s)]
ZeroT(W) == [n \in 1..Len(W) |-> 0]

(* is_covered, rectangles: some z in r1, z' in r2 with z' - z - s in C *)
Cov(W, r1, r2, s)       == FeasibleV(Sub(r2.lo, r1.hi), Sub(r2.hi, r1.lo), W, WT(W,s))
CovDef(W, r1, r2, s, L) == FeasibleDef(Sub(r2.lo, r1.hi), Sub(r2.hi, r1.lo), W, WT(W,s), L)
\* orthant in any dimension (used for m = 3): componentwise
CovOrth(r1, r2, s)      == \A k \in 1..Len(s) : r2.hi[k] - r1.lo[k] >= s[k]
CovOrthDef(r1, r2, s)   == \E z \in Pts(r1) : \E zp \in Pts(r2) : LeqV(Add(z, s), zp)

(* check_dominates, rectangles: every point of r1 dominates some point of r2.
   It suffices to check the vertices of r1 (the set of dominating points of a convex set is convex). *)
PDom(W, r1, r2)       == \A v \in Verts(r1) : FeasibleV(Sub(v, r2.hi), Sub(v, r2.lo), W, ZeroT(W))
PDomDef(W, r1, r2, L) == \A v \in Pts(r1) : FeasibleDef(Sub(v, r2.hi), Sub(v, r2.lo), W, ZeroT(W), L)
\* margin variant: every vertex dominates some point by t in every facet (t may be negative)
PDomT(W, r1, r2, t)   == \A v \in Verts(r1) : FeasibleV(Sub(v, r2.hi), Sub(v, r2.lo), W, [n \in 1..Len(W) |-> t])

(* The procedure the code runs (utils.is_pt_in_extended_polytope on W-images of the vertices):
   pt is in conv(poly) + orthant  if a vertex is <= pt, or the crossing of a segment between two
   vertices with the hyper-plane x[d] = pt[d] is <= pt.   poly is a SEQUENCE (duplicates = distinct indices) *)
Image(W, v)        == [n \in 1..Len(W) |-> Dot(W[n], v)]
VertSeq(b)         == << <<b.lo[1], b.lo[2]>>, <<b.lo[1], b.hi[2]>>, <<b.hi[1], b.lo[2]>>, <<b.hi[1], b.hi[2]>> >>
ExtPoly(pt, poly)  ==
    \/ \E i \in 1..Len(poly) : LeqV(poly[i], pt)
    \/ \E d \in 1..Len(pt) : \E i, j \in 1..Len(poly) :
          /\ i # j /\ poly[i][d] <= pt[d] /\ pt[d] <= poly[j][d] /\ poly[i][d] # poly[j][d]
          /\ LET den == poly[j][d] - poly[i][d]   num == pt[d] - poly[i][d] IN
             \A k \in 1..Len(pt) : poly[i][k]*den + num*(poly[j][k] - poly[i][k]) <= pt[k]*den
PDomProc(W, r1, r2) == LET P2 == [i \in 1..4 |-> Image(W, VertSeq(r2)[i])] IN
                       \A i \in 1..4 : ExtPoly(Image(W, VertSeq(r1)[i]), P2)

---------------------------------------------------------------------------
(* Balls (PaVeBa: identity shape, radius alpha) with per-facet slack a[n]; Wn2[n] = |W[n]|^2 *)
BallDom(W, c1, r1, c2, r2, a) ==      \* w.(z'-z) >= -a_n for all z, z'  <=>  w.(c2-c1) + a_n >= (r1+r2)|w|
    \A n \in 1..Len(W) : LET A == Dot(W[n], Sub(c2,c1)) + a[n] IN A >= 0 /\ A*A >= Sq(r1+r2) * NormSq(W[n])
BallPts(c, r) == { p \in ((c[1]-r)..(c[1]+r)) \X ((c[2]-r)..(c[2]+r)) : NormSq(Sub(p,c)) <= r*r }
BallDomLattice(W, c1, r1, c2, r2, a) ==
    \A z \in BallPts(c1,r1) : \A zp \in BallPts(c2,r2) : \A n \in 1..Len(W) : Dot(W[n], Sub(zp,z)) >= -a[n]
\* is_covered: dist(c2 - c1, {d : W d >= a}) <= r1 + r2 ; nearest point is c, a facet foot or a vertex (2-D)
BallCov(W, c1, r1, c2, r2, a) ==
  LET c == Sub(c2,c1)  R2 == Sq(r1+r2)
      Feas(px,py,q) == \A n \in 1..Len(W) : W[n][1]*px + W[n][2]*py >= a[n]*q IN
  \/ Feas(c[1], c[2], 1)
  \/ \E n \in 1..Len(W) : LET den == NormSq(W[n])  num == a[n] - Dot(W[n],c) IN
        /\ Feas(c[1]*den + num*W[n][1], c[2]*den + num*W[n][2], den) /\ num*num <= R2*den
  \/ \E n, k \in 1..Len(W) : n < k /\ Det2(W[n],W[k]) # 0 /\
        LET v == NormPt(<< a[n]*W[k][2] - W[n][2]*a[k], W[n][1]*a[k] - a[n]*W[k][1], Det2(W[n],W[k]) >>) IN
        /\ Feas(v[1],v[2],v[3]) /\ Sq(v[1]-c[1]*v[3]) + Sq(v[2]-c[2]*v[3]) <= R2*v[3]*v[3]
BallCovLattice(W, c1, r1, c2, r2, a) ==     \* sufficient: a lattice witness pair
    \E z \in BallPts(c1,r1) : \E zp \in BallPts(c2,r2) : \A n \in 1..Len(W) : Dot(W[n], Sub(zp,z)) >= a[n]

---------------------------------------------------------------------------
(* General ellipsoids, per-facet slack a[n].  Quad(S,w) = w' S w *)
Quad(S,w) == w[1]*(S[1][1]*w[1] + S[1][2]*w[2]) + w[2]*(S[2][1]*w[1] + S[2][2]*w[2])
EllDom(W, e1, e2, a) ==
    \A n \in 1..Len(W) : GeSqrtSum(Dot(W[n], Sub(e2.c, e1.c)) + a[n], Sq(e1.a)*Quad(e1.S, W[n]), Sq(e2.a)*Quad(e2.S, W[n]))
\* membership of a lattice point: (x-c)' adj(S) (x-c) <= alpha^2 det(S)
EllHas(e, x) == LET d == Sub(x, e.c)  det == e.S[1][1]*e.S[2][2] - e.S[1][2]*e.S[2][1] IN
    d[1]*(e.S[2][2]*d[1] - e.S[1][2]*d[2]) + d[2]*(e.S[1][1]*d[2] - e.S[2][1]*d[1]) <= Sq(e.a)*det
EllPts(e, R) == { p \in ((e.c[1]-R)..(e.c[1]+R)) \X ((e.c[2]-R)..(e.c[2]+R)) : EllHas(e, p) }
EllDiffs(e1, e2, R) == LET P1 == EllPts(e1,R)  P2 == EllPts(e2,R) IN { Sub(zp, z) : z \in P1, zp \in P2 }   \* all z' - z on the lattice
EllDomLatticeD(W, D, a) == \A d \in D : \A n \in 1..Len(W) : Dot(W[n], d) >= -a[n]
EllCovWitnessD(W, D, a) == \E d \in D : \A n \in 1..Len(W) : Dot(W[n], d) >= a[n]
EllDomLattice(W, e1, e2, a, R) == EllDomLatticeD(W, EllDiffs(e1,e2,R), a)
\* is_covered, three-valued: "T" lattice witness, "F" separating functional lam >= 0 on a small lattice, else "B"
EllCovWitness(W, e1, e2, a, R) ==
    \E z \in EllPts(e1,R) : \E zp \in EllPts(e2,R) : \A n \in 1..Len(W) : Dot(W[n], Sub(zp,z)) >= a[n]
EllCovSeparated(W, e1, e2, a, LamMax) ==
    \E lam \in [1..Len(W) -> 0..LamMax] :
       LET u  == IF Len(W) = 2 THEN Add(Scale(lam[1],W[1]), Scale(lam[2],W[2]))
                 ELSE Add(Add(Scale(lam[1],W[1]), Scale(lam[2],W[2])), Scale(lam[3],W[3]))
           ls == IF Len(W) = 2 THEN lam[1]*a[1] + lam[2]*a[2] ELSE lam[1]*a[1] + lam[2]*a[2] + lam[3]*a[3] IN
       GtSqrtSum(ls - Dot(u, Sub(e2.c, e1.c)), Sq(e1.a)*Quad(e1.S,u), Sq(e2.a)*Quad(e2.S,u))
EllCov3(W, e1, e2, a, R, LamMax) == IF EllCovWitness(W,e1,e2,a,R) THEN "T"
                                    ELSE IF EllCovSeparated(W,e1,e2,a,LamMax) THEN "F" ELSE "B"
EllCov3D(W, e1, e2, D, a, LamMax) == IF EllCovWitnessD(W,D,a) THEN "T"
                                     ELSE IF EllCovSeparated(W,e1,e2,a,LamMax) THEN "F" ELSE "B"

---------------------------------------------------------------------------
(* rectangle intersection (utils.hyperrectangle_check_intersection + RectangularConfidenceRegion.intersect) *)
Overlap(b1, b2) == ~ ( (\E k \in 1..Len(b1.lo) : b1.lo[k] >= b2.hi[k]) \/ (\E k \in 1..Len(b1.lo) : b1.hi[k] <= b2.lo[k]) )
Intersect(b1, b2) == IF Overlap(b1, b2)
                     THEN [lo |-> [k \in 1..Len(b1.lo) |-> Max2(b1.lo[k], b2.lo[k])],
                           hi |-> [k \in 1..Len(b1.lo) |-> Min2(b1.hi[k], b2.hi[k])]]
                     ELSE b2
=============================================================================

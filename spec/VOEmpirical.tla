---------------------------- MODULE VOEmpirical ----------------------------
(* vopy/models/empirical_mean_var.py::EmpiricalMeanVarModel as a state machine.
   samples[d]  : the sequence of observation vectors ever added for design d (since the last clear)
   snap[d]     : samples[d] as of the last update()  - predictions read snap, not samples
   out         : what predict() must return for every design, as exact statistics of snap:
                 [n |-> count, s |-> sum vector, q |-> sum of squares vector]
                 mean = s/n (0 if n = 0) ; population variance = (n q - s^2)/n^2 if n > 1 else the noise variance *)
EXTENDS VOArith, TLC
CONSTANTS ND, Vals, MaxBatch, MaxLen       \* designs 0..ND-1 ; index ND is out of range
D    == 0..(ND-1)
Vec  == Vals \X Vals
VARIABLES samples, snap, updated, trackM, trackV, op
vars == <<samples, snap, updated, trackM, trackV, op>>

Empty == [d \in D |-> <<>>]
Init == /\ samples = Empty /\ snap = Empty /\ updated = FALSE
        /\ trackM \in BOOLEAN /\ trackV \in BOOLEAN
        /\ op = [name |-> "init", idx |-> <<>>, Y |-> <<>>, ok |-> TRUE]

RECURSIVE AddAll(_,_,_)
AddAll(sm, idx, Y) == IF idx = <<>> THEN sm
                      ELSE AddAll([sm EXCEPT ![Head(idx)] = Append(@, Head(Y))], Tail(idx), Tail(Y))
Total == LET RECURSIVE T(_)  T(k) == IF k < 0 THEN 0 ELSE Len(samples[k]) + T(k-1) IN T(ND-1)

\* add_sample(indices, Y): rejected (ValueError, nothing stored) if lengths differ or an index is >= design count
DoAdd == \E n \in 1..MaxBatch : \E idx \in [1..n -> 0..ND] : \E ny \in (IF n = 1 THEN {1, 2} ELSE {n}) : \E Y \in [1..ny -> Vec] :
         /\ Total + n <= MaxLen
         /\ LET ok == (ny = n) /\ (\A k \in 1..n : idx[k] < ND) IN
            /\ samples' = IF ok THEN AddAll(samples, idx, Y) ELSE samples
            /\ op' = [name |-> "add", idx |-> idx, Y |-> Y, ok |-> ok]
         /\ UNCHANGED <<snap, updated, trackM, trackV>>
DoUpdate == /\ snap' = samples /\ updated' = TRUE
          /\ op' = [name |-> "update", idx |-> <<>>, Y |-> <<>>, ok |-> TRUE]
          /\ UNCHANGED <<samples, trackM, trackV>>
DoClear == /\ samples' = Empty
          /\ op' = [name |-> "clear", idx |-> <<>>, Y |-> <<>>, ok |-> TRUE]
          /\ UNCHANGED <<snap, updated, trackM, trackV>>
Next == DoAdd \/ DoUpdate \/ DoClear
Spec == Init /\ [][Next]_vars

RECURSIVE SumV(_), SumQ(_)
SumV(s) == IF s = <<>> THEN <<0,0>> ELSE <<Head(s)[1] + SumV(Tail(s))[1], Head(s)[2] + SumV(Tail(s))[2]>>
SumQ(s) == IF s = <<>> THEN <<0,0>> ELSE <<Sq(Head(s)[1]) + SumQ(Tail(s))[1], Sq(Head(s)[2]) + SumQ(Tail(s))[2]>>
Stat(s) == [n |-> Len(s), s |-> SumV(s), q |-> SumQ(s)]
Out     == [d \in D |-> Stat(snap[d])]
\* predict(X) names designs by the index column of X; the answer is pointwise in the query - any order, length, repetition or gap
PredictSeq(q) == [k \in 1..Len(q) |-> Out[q[k]]]

\* theorems about the machine
StatOrderFree == \A d \in D : \A i, j \in 1..Len(snap[d]) :
                    LET sw == [k \in 1..Len(snap[d]) |-> IF k = i THEN snap[d][j] ELSE IF k = j THEN snap[d][i] ELSE snap[d][k]] IN
                    Stat(sw) = Stat(snap[d])                          \* statistics ignore the order of samples
VarNonNeg     == \A d \in D : LET st == Stat(snap[d]) IN \A k \in 1..2 : st.n * st.q[k] - Sq(st.s[k]) >= 0
SnapIsOld     == [][snap' # snap => snap' = samples]_vars            \* only update() changes what is predicted, to the data held
ClearForgets  == [][(samples = Empty /\ snap' # snap) => snap' = Empty]_vars
View          == <<samples, snap, updated, trackM, trackV>>
=============================================================================

---------------------------- MODULE VOConeConst ----------------------------
(* Cone constants (vopy/utils/utils.py::get_alpha, VOGP.compute_u_star, ConeTheta2D.beta) as exact rationals
   for integer 2-D cones, each with its DEFINITION as a bounded quantifier over lattice points.
     alpha_n^2 = max over x in C \ {0} of (w_n.x)^2 / (|w_n|^2 |x|^2)        (unit normals: alpha_n = max w_n.x, |x| <= 1)
     z*        = the point of { z : W z >= 1 } of minimum norm,  d1 = |z*|,  u* = z*/|z*|
     beta(theta) = 1/sin(theta) for acute theta-cones, 1 otherwise            (tan(theta/2) = p/q)                  *)
EXTENDS VOCone, TLC

\* extreme rays of { x : W x >= 0 } in the plane: directions perpendicular to a row that lie in the cone
Perps(W) == UNION { { <<-W[n][2], W[n][1]>>, <<W[n][2], -W[n][1]>> } : n \in 1..Len(W) }
Rays(W)  == { r \in Perps(W) : r # <<0,0>> /\ InCone(W, r) }
HasInterior(W, L) == \E x \in L : InInterior(W, x)

\* candidate values of (w_n.x)^2 / (|w_n|^2 |x|^2) : the own normal (if inside) and the extreme rays with positive product
AlphaCands(W, n) == (IF InCone(W, W[n]) THEN { <<1, 1>> } ELSE {})
                    \cup { << Sq(Dot(W[n], r)), NormSq(W[n]) * NormSq(r) >> : r \in { rr \in Rays(W) : Dot(W[n], rr) > 0 } }
                    \cup { <<0, 1>> }
AlphaSq(W, n) == RMax(AlphaCands(W, n))
\* definition: no lattice vector of the cone does better, and some candidate direction attains it
AlphaOptimal(W, n, L) == LET a == AlphaSq(W, n) IN
    \A x \in L : (InCone(W, x) /\ x # <<0,0>> /\ Dot(W[n], x) > 0) => Sq(Dot(W[n], x)) * a[2] <= a[1] * NormSq(W[n]) * NormSq(x)

\* z* : candidates are the feet of the facet lines  w_n . z = 1  and the pairwise intersections; rationals <<px, py, q>>, q > 0
NormP(c) == IF c[3] < 0 THEN <<-c[1], -c[2], -c[3]>> ELSE c
ZCands(W) == ( { <<W[n][1], W[n][2], NormSq(W[n])>> : n \in { m \in 1..Len(W) : NormSq(W[m]) > 0 } }
               \cup { IF Det2(W[n], W[k]) = 0 THEN <<0,0,0>> ELSE NormP(<< W[k][2] - W[n][2], W[n][1] - W[k][1], Det2(W[n], W[k]) >>) :
                        n \in 1..Len(W), k \in 1..Len(W) } ) \ { <<0,0,0>> }
ZFeas(W, c) == \A n \in 1..Len(W) : W[n][1]*c[1] + W[n][2]*c[2] >= c[3]
ZNormLe(c, d) == (Sq(c[1]) + Sq(c[2])) * Sq(d[3]) <= (Sq(d[1]) + Sq(d[2])) * Sq(c[3])
ZStar(W) == LET F == { c \in ZCands(W) : ZFeas(W, c) } IN CHOOSE c \in F : \A d \in F : ZNormLe(c, d)
D1Sq(W)  == LET z == ZStar(W) IN << Sq(z[1]) + Sq(z[2]), Sq(z[3]) >>
\* definition: every lattice point x / Lq with W x >= Lq has norm at least d1 ; z* is feasible and lies in the cone
ZOptimal(W, L, Lq) == LET z == ZStar(W) IN
    /\ ZFeas(W, z) /\ InCone(W, <<z[1], z[2]>>)
    /\ \A x \in L : (\A n \in 1..Len(W) : Dot(W[n], x) >= Lq) => NormSq(x) * Sq(z[3]) >= (Sq(z[1]) + Sq(z[2])) * Sq(Lq)

BetaTheta(p, q) == IF p < q THEN <<p*p + q*q, 2*p*q>> ELSE <<1, 1>>
=============================================================================

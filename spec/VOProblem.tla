------------------------------ MODULE VOProblem ------------------------------
(* vopy/maximization_problem.py (ProblemFromDataset, ContinuousProblem, DecoupledEvaluationProblem),
   utils.get_closest_indices_from_points / get_noisy_evaluations_chol / normalize / unnormalize, datasets.Dataset scaling.
   Designs and queries live on an integer lattice (the harness divides by a power of two).                          *)
EXTENDS VOArith, TLC

Dist2(a, b) == NormSq(Sub(a, b))
\* first index attaining the minimum squared distance (np.argmin returns the first minimum)
Nearest(X, q) == CHOOSE i \in 1..Len(X) : /\ \A j \in 1..Len(X) : Dist2(X[i], q) <= Dist2(X[j], q)
                                          /\ \A j \in 1..(i-1) : Dist2(X[j], q) > Dist2(X[i], q)
\* noise of one evaluation: a standard-normal draw vector z (row) turned into covariance L L^T :  z . L^T
NoiseVec(z, L) == << z[1]*L[1][1] + z[2]*L[1][2], z[1]*L[2][1] + z[2]*L[2][2] >>
\* decoupled evaluation: which entries of the value matrix are returned
Decoupled(vals, form, k, ks) == CASE form = "none" -> vals
                                  [] form = "int"  -> [i \in 1..Len(vals) |-> vals[i][k]]
                                  [] OTHER         -> [i \in 1..Len(vals) |-> vals[i][ks[i]]]
\* min-max scaling of a column to [0,1] (constant column -> 0) as rationals <<n, d>>
MinOf(c) == CHOOSE a \in SeqToSet(c) : \A b \in SeqToSet(c) : a <= b
MaxOf(c) == CHOOSE a \in SeqToSet(c) : \A b \in SeqToSet(c) : a >= b
MinMax(c) == [i \in 1..Len(c) |-> IF MaxOf(c) = MinOf(c) THEN <<0, 1>> ELSE <<c[i] - MinOf(c), MaxOf(c) - MinOf(c)>>]
\* standardisation to zero mean / unit (population) variance: value_i = (n c_i - S) / sqrt(n Q - S^2), as <<sign, num^2, den>>
SumS(c) == LET RECURSIVE F(_)  F(k) == IF k = 0 THEN 0 ELSE c[k] + F(k-1) IN F(Len(c))
SumQ2(c) == LET RECURSIVE F(_)  F(k) == IF k = 0 THEN 0 ELSE c[k]*c[k] + F(k-1) IN F(Len(c))
Standard(c) == LET n == Len(c)  S == SumS(c)  V == n * SumQ2(c) - S * S IN
               [i \in 1..n |-> IF V = 0 THEN <<0, 0, 1>> ELSE << Sgn(n*c[i] - S), Sq(n*c[i] - S), V >>]
\* theorems about the scalings
MinMaxRange(c) == \A i \in 1..Len(c) : LET r == MinMax(c)[i] IN r[1] >= 0 /\ r[1] <= r[2]
MinMaxHits(c)  == MaxOf(c) # MinOf(c) => (\E i \in 1..Len(c) : MinMax(c)[i][1] = 0) /\ (\E i \in 1..Len(c) : MinMax(c)[i][1] = MinMax(c)[i][2])
StdMeanZero(c) == LET n == Len(c)  S == SumS(c) IN (LET RECURSIVE F(_)  F(k) == IF k = 0 THEN 0 ELSE (n*c[k] - S) + F(k-1) IN F(n)) = 0
StdUnitVar(c)  == LET n == Len(c)  S == SumS(c)  V == n * SumQ2(c) - S * S IN
                  V # 0 => (LET RECURSIVE F(_)  F(k) == IF k = 0 THEN 0 ELSE Sq(n*c[k] - S) + F(k-1) IN F(n)) = n * V
\* normalize / unnormalize with bounds (lo, hi), lo < hi, on rationals: mutual inverses
NormR(x, lo, hi)   == << x[1] - lo * x[2], (hi - lo) * x[2] >>
UnnormR(y, lo, hi) == << y[1] * (hi - lo) + lo * y[2], y[2] >>
=============================================================================

---------------------------- MODULE VOTraceTree ----------------------------
(* Trace validation of VOGP_AD runs (C18, and the run-level clauses of C06 for this algorithm).  The specification
   rebuilds the tree (cells, depths) from the logged refinements and judges every run_one_step().                  *)
EXTENDS VOTreeOps, VOAlgo, Json, IOUtils
Traces == ndJsonDeserialize(IOEnv.TRACE_FILE)
VARIABLES tid, l, cells, depth, gone
vars == <<tid, l, cells, depth, gone>>
ToSet(s) == { s[k] : k \in 1..Len(s) }

Init == /\ tid \in 1..Len(Traces) /\ l = 1
        /\ cells = << Root(Traces[tid].dim, Traces[tid].maxdepth - 1) >> /\ depth = <<1>> /\ gone = {}
Clauses(T, e) ==
  LET preS == ToSet(e.pre.S)   preP == ToSet(e.pre.P)   postS == ToSet(e.post.S)   postP == ToSet(e.post.P)
      n    == Len(cells)
      kids == [k \in 1..Len(e.new) |-> e.new[k].id]
      kidS == ToSet(kids)
      cells2 == cells \o [k \in 1..Len(e.new) |-> e.new[k].cell]
      depth2 == depth \o [k \in 1..Len(e.new) |-> e.new[k].depth]
      par  == e.refined
      disc == (preS \ postS) \ (postP \cup {par})
      newP == (postP \ preP) \ kidS
      S1   == preS \ disc                                         \* candidates when epsilon-covering runs
      leaves == postS \cup postP \cup gone \cup disc IN
  IF e.exc # 0 THEN [nocrash |-> FALSE]
  ELSE IF e.pre.S = <<>> THEN [nocrash |-> TRUE, idle |-> (e.post = e.pre /\ e.new = <<>> /\ e.rows = 0 /\ e.ret)]
  ELSE
  [ nocrash   |-> TRUE,
    ids       |-> kids = [k \in 1..Len(e.new) |-> n + k],                                 \* new nodes are appended
    children  |-> IF par = 0 THEN e.new = <<>>
                  ELSE /\ par \in preS \cup preP /\ depth[par] < T.maxdepth
                       /\ ChildrenOK(cells2, depth2, par, kids, T.dim),
    centres   |-> \A k \in 1..Len(e.new) : \A d \in 1..T.dim : e.new[k].centre2[d] = e.new[k].cell[d][1] + e.new[k].cell[d][2],
    inherit   |-> \A k \in 1..Len(e.new) : e.new[k].region_from_parent,
    swap      |-> par # 0 => /\ (par \in preS => (kidS \subseteq postS /\ par \notin postS))       \* replaced by its children in the same set
                             /\ (par \in preP => (kidS \subseteq postP /\ par \notin postP)),
    mono      |-> postS \subseteq (preS \cup kidS) /\ (preP \ {par}) \subseteq postP /\ postP \subseteq (preP \cup preS \cup kidS),
    disjoint  |-> postS \cap postP = {} /\ (postS \cup postP) \cap (gone \cup disc) = {},
    leafdisj  |-> \A i, j \in postS \cup postP : i # j => Disjoint(cells2[i], cells2[j]),
    tiling    |-> Tiles(cells2, leaves, T.dim, T.maxdepth - 1),
    depthok   |-> \A k \in 1..Len(e.new) : depth2[kids[k]] <= T.maxdepth,
    atmax     |-> \A i \in postP : depth2[i] = T.maxdepth,                                 \* declared only at the finest depth
    gate      |-> /\ (newP # {} => e.post.gate)
                  /\ (e.pre.gate => e.post.gate)
                  /\ ((e.post.gate /\ ~e.pre.gate) => \A i \in S1 : depth[i] = T.maxdepth),
    round     |-> e.post.round = e.pre.round + 1,
    samples   |-> e.post.samples = e.pre.samples + e.rows /\ (par # 0 => e.rows = 0) /\ ((par = 0 /\ postS # {}) => e.rows = 1),
    ret       |-> e.ret = (e.post.S = <<>>),
    \* the decisions of the round against the relations of the displayed regions (C02 / C03 for VOGP_AD): discarded exactly on an
    \* eps-slack certificate with a pessimistic witness; declared exactly when uncovered and the gate is open.  Non-robust pairs: existential.
    sets      |-> IF e.skipsets THEN TRUE ELSE
                  \E xa \in SUBSET ToSet(e.amb.a) : \E xb \in SUBSET ToSet(e.amb.b) : \E xc \in SUBSET ToSet(e.amb.c) :
                     LET x == VogpStep(preS, preP, ToSet(e.rel.c) \cup xc, ToSet(e.rel.a) \cup xa, ToSet(e.rel.b) \cup xb, e.post.gate) IN
                     x.disc = disc /\ x.np = newP ]
AllTrue(c) == \A k \in DOMAIN c : c[k]
Next == /\ l <= Len(Traces[tid].steps) + 1
        /\ LET T == Traces[tid] IN
           IF l = Len(T.steps) + 1 THEN PrintT(<<"DONE", T.tid, Len(T.steps)>>) /\ l' = l + 1 /\ UNCHANGED <<tid, cells, depth, gone>>
           ELSE LET e == T.steps[l]  c == Clauses(T, e) IN
                /\ (IF AllTrue(c) THEN TRUE ELSE PrintT(<<"REJECT", T.tid, l, c>>))
                /\ cells' = cells \o [k \in 1..Len(e.new) |-> e.new[k].cell]
                /\ depth' = depth \o [k \in 1..Len(e.new) |-> e.new[k].depth]
                /\ gone' = gone \cup ((ToSet(e.pre.S) \ ToSet(e.post.S)) \ (ToSet(e.post.P) \cup {e.refined}))
                /\ l' = l + 1 /\ UNCHANGED tid
Spec == Init /\ [][Next]_vars
=============================================================================

------------------------------ MODULE VOPareto ------------------------------
(* Pareto-set extraction (vopy/order.py): the mask-and-compact loop of get_pareto_set as a state
   machine, the naive double loop as an operator, and the declarative definition.  Indices are 1-based. *)
EXTENDS VOParetoOps
CONSTANTS N, G, Cones
Grid == (0..G) \X (0..G)

VARIABLES W, V, isP, el, nxt, pc
vars == <<W, V, isP, el, nxt, pc>>
Init == /\ W \in Cones /\ \E n \in 1..N : V \in [1..n -> Grid]
        /\ isP = [k \in 1..Len(V) |-> k] /\ el = V /\ nxt = 1 /\ pc = "loop"
\* one iteration of the while loop ( next_point_index of the code = nxt - 1 )
Iter == /\ pc = "loop" /\ nxt <= Len(el)
        /\ LET vj == el[nxt]
               mask == [i \in 1..Len(el) |-> IF i = nxt THEN TRUE ELSE ~ Dominates(W, vj, el[i])] IN
           /\ isP' = Filt(isP, mask) /\ el' = Filt(el, mask)
           /\ nxt' = CountTrue(mask, nxt - 1) + 2          \* np.sum(mask[:npi]) + 1, shifted to 1-based
        /\ UNCHANGED <<W, V, pc>>
Exit == pc = "loop" /\ nxt > Len(el) /\ pc' = "done" /\ UNCHANGED <<W, V, isP, el, nxt>>
Next == Iter \/ Exit
Spec == Init /\ [][Next]_vars

Res          == SeqToSet(isP)
Sound        == pc = "done" => Res \subseteq ParetoDef(W, V)
Covering     == pc = "done" => \A i \in 1..Len(V) : \E j \in Res : Dominates(W, V[j], V[i])
OncePerValue == pc = "done" => \A i, j \in Res : i # j => V[i] # V[j]
Increasing   == \A k \in 1..(Len(isP) - 1) : isP[k] < isP[k+1]
Aligned      == Len(isP) = Len(el) /\ \A k \in 1..Len(isP) : el[k] = V[isP[k]]
Bounded      == nxt >= 1 /\ nxt <= Len(el) + 1
LoopIsFn     == pc = "done" => isP = ParetoFast(W, V)
NaiveThm     == LET R == SeqToSet(ParetoNaive(W, V)) IN
                /\ R \subseteq ParetoDef(W, V)                                                \* sound
                /\ \A i \in ParetoDef(W, V) : PointedRank2(W) => i \in R                      \* keeps every duplicate (pointed cones)
                /\ PointedRank2(W) => \A i \in 1..Len(V) : \E j \in R : Dominates(W, V[j], V[i])
Progress     == [][pc = "loop" /\ pc' = "loop" => (nxt' > nxt \/ Len(el') < Len(el))]_vars       \* the loop terminates
=============================================================================

---------------------------- MODULE ParetoTable ----------------------------
(* table of (cone, vector sequence) -> fast / naive index sequences, dumped for replay into vopy.order *)
EXTENDS VOParetoOps
CONSTANTS N, G, Cones
Grid == (0..G) \X (0..G)
VARIABLES cfg, ans
TInit == /\ cfg \in { [W |-> Wc, V |-> v] : Wc \in Cones, v \in UNION { [1..n -> Grid] : n \in 1..N } }
         /\ ans = [fast |-> ParetoFast(cfg.W, cfg.V), naive |-> ParetoNaive(cfg.W, cfg.V), def |-> ParetoDef(cfg.W, cfg.V)]
TNext == UNCHANGED <<cfg, ans>>
=============================================================================

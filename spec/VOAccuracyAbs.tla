--------------------------- MODULE VOAccuracyAbs ---------------------------
(* The accuracy statements C01 (PaVeBa family) and C05 (VOGP / eps-PAL) at the level of RELATIONS: no geometry, any
   number of designs.  A hidden truth is represented by relations between designs; every round the environment offers
   ANY region relations that are consistent with "each active design's truth lies in its displayed region"; the round is
   the step operator of VOAlgo.  The consistency conditions are exactly what validity gives geometrically:

     paveba   V1  dom <<i,j>> (all of R_j dominates all of R_i)  =>  wd <<i,j>>   (mu_j weakly dominates mu_i)
              V2  dom is acyclic among the designs it is read on (regions with non-empty interior, pointed cone:
                  a strict rank r exists with dom <<i,j>> => r[j] > r[i])
              V3  ex <<i,k>> (mu_k exceeds mu_i by more than eps)  =>  cov <<i,k>>   (the truths themselves are a covering pair),
                  required for ACTIVE designs only (S u U): nothing is assumed about the stale regions of the other members of P -
                  a member of P leaves U only when it can cover no candidate any more, and candidates only become fewer
     vogp     W1  dom <<i,j>> (R_j + slack dominates all of R_i)  =>  sd <<i,j>>  (mu_j + slack dominates mu_i)
              W3  mo <<i,j>> (mu_j dominates mu_i by more than the slack)  =>  cov <<i,j>>

   TLC checks the invariants for all truths and all environments on |D| = 3 (4 in the thorough tier); spec/proofs/VOAccuracyProofs.tla
   proves them with tlapm for every finite D.  VOSafety is the same statement WITH geometry on small lattices; the conditions V1-V3, W1, W3
   are theorems of VOGeometry there.                                                                                                     *)
EXTENDS VOAlgo, FiniteSets
CONSTANTS D, Fam,           \* Fam : "paveba" | "vogp" | "auer"
          UseV2, UseV3, UseV4      \* FALSE drops the condition: TLC must then find an inaccurate run (the conditions are not vacuous)
VARIABLES wd, ex, S, P, U
vars == <<wd, ex, S, P, U>>
\* vogp reuses the two truth variables:  wd plays sd (mu_j + slack dominates mu_i),  ex plays mo (dominates by more than the slack)

Pairs   == { p \in D \X D : p[1] # p[2] }
Refl    == { <<i, i>> : i \in D }
IsTrans(r) == \A i, j, k \in D : <<i,j>> \in r /\ <<j,k>> \in r => <<i,k>> \in r
TruthOK == IF Fam \in {"paveba", "auer"}
           THEN /\ Refl \subseteq wd /\ IsTrans(wd)
                /\ ex \cap Refl = {}
                /\ \A i, j, k \in D : <<i,j>> \in ex /\ <<j,k>> \in wd => <<i,k>> \in ex
           ELSE TRUE

Init == /\ wd \in SUBSET (D \X D) /\ ex \in SUBSET (D \X D) /\ TruthOK
        /\ S = D /\ P = {} /\ U = {}

\* ---- the environment's choices, already restricted to the pairs the step reads
Ranked(dom) == \E r \in [D -> 0..Cardinality(D)] : \A i \in S : \A j \in (S \cup U) \ {i} : <<i,j>> \in dom => r[j] > r[i]
PRound == \E dom \in SUBSET { p \in Pairs : p[1] \in S /\ p[2] \in S \cup U /\ p \in wd } :                 \* V1
          \E extra \in SUBSET { p \in Pairs : p[1] \in S /\ p[2] \in S \cup P } :
            LET cov == { p \in Pairs : UseV3 /\ p[1] \in S /\ p[2] \in S \cup U /\ p \in ex } \cup extra              \* V3
                x   == PavebaStep(S, P, U, dom, cov) IN
            /\ (UseV2 => Ranked(dom))                                                                        \* V2
            /\ S' = x.S /\ P' = x.P /\ U' = x.U /\ UNCHANGED <<wd, ex>>
\* the pessimistic relation enters VogpStep only through VogpPess: every subset of S u P is the pessimistic set of some relation
\* (all of it if there is a single live design), so the environment chooses that set
PdomFor(Pe) == { p \in Pairs : p[2] \in (S \cup P) \ Pe /\ p[1] \in S \cup P }
VRound == \E Pe \in { X \in SUBSET (S \cup P) : Cardinality(S \cup P) = 1 => X = S \cup P } : LET pdom == PdomFor(Pe) IN
          \E dom \in SUBSET { p \in Pairs : p[1] \in S /\ p[2] \in S \cup P /\ p \in wd } :                  \* W1
          \E extra \in SUBSET { p \in Pairs : p[1] \in S /\ p[2] \in S \cup P } : \E g \in BOOLEAN :
            LET cov == { p \in Pairs : p[1] \in S /\ p[2] \in S \cup P /\ p \in ex } \cup extra              \* W3
                x   == VogpStep(S, P, pdom, dom, cov, g) IN
            /\ S' = x.S /\ P' = x.P /\ U' = x.U /\ UNCHANGED <<wd, ex>>
\* Auer (componentwise order, every design's own rectangle; relations as in VOAlgo):
\*   A1  gt <<i,j>> (j beats i by more than both widths in every objective)  =>  wd <<i,j>>, and gt is acyclic (rank)
\*   A3  ex <<i,j>>  =>  mc <<i,j>>  (i plus eps may still be matched by j)             for candidates i, j
\*   A4  ex <<j,i>>  =>  nd <<j,i>>  (the hold-back test reads the same pair non-strictly)
\* the relations are chosen stage by stage on the pairs the stage reads
ARound == \E gt \in SUBSET { p \in Pairs : p[1] \in S /\ p[2] \in S /\ p \in wd } :                                  \* A1
            LET Dc == AuerDisc(S, gt)   S1 == S \ Dc
                exS1 == { p \in Pairs : p[1] \in S1 /\ p[2] \in S1 /\ p \in ex } IN
            /\ (UseV2 => \E r \in [D -> 0..Cardinality(D)] : \A p \in gt : r[p[2]] > r[p[1]])
            /\ \E extraM \in SUBSET { p \in Pairs : p[1] \in S1 /\ p[2] \in S1 } :
                 LET mc == (IF UseV3 THEN exS1 ELSE {}) \cup extraM                                             \* A3
                     P1 == AuerP1(S1, mc) IN
                 \E extraN \in SUBSET { p \in Pairs : p[1] \in S1 \ P1 /\ p[2] \in P1 } :
                   LET nd == (IF UseV4 THEN exS1 ELSE {}) \cup extraN                                           \* A4
                       x  == AuerStep(S, P, gt, mc, nd) IN
                   S' = x.S /\ P' = x.P /\ U' = x.U /\ UNCHANGED <<wd, ex>>
Next == /\ S # {}
        /\ CASE Fam = "paveba" -> PRound [] Fam = "vogp" -> VRound [] OTHER -> ARound
Spec == Init /\ [][Next]_vars

\* ---- invariants (inductive together with VOAlgoProofs!Sane)
Cover     == \A i \in D \ (S \cup P) : \E j \in S \cup P : <<i,j>> \in wd          \* every discarded design is weakly dominated by a live one
UsefulInv == \A i \in S : \A k \in P : <<i,k>> \in ex => k \in U                    \* a member of P that beats a candidate by eps is still observed
GapInv    == \A i \in P : \A j \in D : <<i,j>> \notin ex                            \* members of P have gap <= eps
IsoInv    == \A i \in D : (~ \E j \in D \ {i} : <<i,j>> \in wd) => i \in S \cup P   \* eps-isolated optima are never discarded
NoMoInv   == \A i \in P : \A j \in (S \cup P) \ {i} : <<i,j>> \notin ex             \* P is internally non-eps-dominated, also against candidates
Sane      == S \cap P = {} /\ U \subseteq P /\ S \cup P \subseteq D

AccurateP == S = {} => /\ \A i \in D \ P : \E j \in P : <<i,j>> \in wd
                       /\ \A i \in P : \A j \in D : <<i,j>> \notin ex
AccurateV == S = {} => /\ \A i \in D : (~ \E j \in D \ {i} : <<i,j>> \in wd) => i \in P
                       /\ \A i \in P : \A j \in P \ {i} : <<i,j>> \notin ex
HeldInv   == \A i \in S : \A k \in P : <<i,k>> \notin ex                           \* Auer: no member of P eps-exceeds a candidate (hold-back rule)
AuerInv   == Fam = "auer" => Cover /\ HeldInv /\ GapInv /\ AccurateP
PavebaInv == Fam = "paveba" => Cover /\ UsefulInv /\ GapInv /\ AccurateP
VogpInv   == Fam = "vogp" => IsoInv /\ NoMoInv /\ AccurateV
\* the conditions are needed: with UseV2 = FALSE (mutual discards) or UseV3 = FALSE (coverage not implied by the truths) TLC finds
\* inaccurate runs
=============================================================================

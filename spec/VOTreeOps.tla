------------------------------ MODULE VOTreeOps ------------------------------
(* Adaptive discretisation (vopy/design_space.py::AdaptivelyDiscretizedDesignSpace): cells of the unit cube as integer
   boxes at scale 2^MaxDepth: a cell is a sequence (one entry per domain dimension) of pairs <<lo, hi>>.          *)
EXTENDS VOArith, TLC

RECURSIVE Pow2(_)
Pow2(n) == IF n = 0 THEN 1 ELSE IF n = 1 THEN 2 ELSE IF n = 2 THEN 4 ELSE IF n = 3 THEN 8 ELSE IF n = 4 THEN 16 ELSE IF n = 5 THEN 32 ELSE 2 * Pow2(n - 1)
Vol(c)  == IF Len(c) = 1 THEN c[1][2] - c[1][1]
           ELSE IF Len(c) = 2 THEN (c[1][2] - c[1][1]) * (c[2][2] - c[2][1])
           ELSE (c[1][2] - c[1][1]) * (c[2][2] - c[2][1]) * (c[3][2] - c[3][1])
Root(dim, D) == [k \in 1..dim |-> <<0, Pow2(D)>>]
Lo(iv) == <<iv[1], (iv[1] + iv[2]) \div 2>>
Hi(iv) == <<(iv[1] + iv[2]) \div 2, iv[2]>>
\* children in the order of itertools.product over per-dimension [lower half, upper half] (first dimension slowest)
Children(c) ==
   IF Len(c) = 1 THEN << <<Lo(c[1])>>, <<Hi(c[1])>> >>
   ELSE IF Len(c) = 2 THEN << <<Lo(c[1]), Lo(c[2])>>, <<Lo(c[1]), Hi(c[2])>>, <<Hi(c[1]), Lo(c[2])>>, <<Hi(c[1]), Hi(c[2])>> >>
   ELSE << <<Lo(c[1]), Lo(c[2]), Lo(c[3])>>, <<Lo(c[1]), Lo(c[2]), Hi(c[3])>>, <<Lo(c[1]), Hi(c[2]), Lo(c[3])>>, <<Lo(c[1]), Hi(c[2]), Hi(c[3])>>,
           <<Hi(c[1]), Lo(c[2]), Lo(c[3])>>, <<Hi(c[1]), Lo(c[2]), Hi(c[3])>>, <<Hi(c[1]), Hi(c[2]), Lo(c[3])>>, <<Hi(c[1]), Hi(c[2]), Hi(c[3])>> >>
Disjoint(c1, c2) == \E k \in 1..Len(c1) : c1[k][2] <= c2[k][1] \/ c2[k][2] <= c1[k][1]        \* interiors do not meet
Inside(c, p)     == \A k \in 1..Len(c) : p[k][1] <= c[k][1] /\ c[k][2] <= p[k][2]                \* c is a sub-cell of p
HalfSide(c, p)   == \A k \in 1..Len(c) : 2 * (c[k][2] - c[k][1]) = p[k][2] - p[k][1]
SumVol(cells, ids) == LET RECURSIVE F(_)  F(Sx) == IF Sx = {} THEN 0 ELSE LET i == CHOOSE i \in Sx : TRUE IN Vol(cells[i]) + F(Sx \ {i}) IN F(ids)
\* a set of leaves tiles the cube: pairwise interior-disjoint and volumes add up
Tiles(cells, ids, dim, D) == /\ \A i, j \in ids : i # j => Disjoint(cells[i], cells[j])
                             /\ SumVol(cells, ids) = Vol(Root(dim, D))
ChildrenOK(cells, depth, parent, kids, dim) ==
   /\ Len(kids) = Pow2(dim)
   /\ \A k \in 1..Len(kids) : /\ Inside(cells[kids[k]], cells[parent]) /\ HalfSide(cells[kids[k]], cells[parent])
                              /\ depth[kids[k]] = depth[parent] + 1
   /\ \A a, b \in 1..Len(kids) : a # b => Disjoint(cells[kids[a]], cells[kids[b]])
   /\ [k \in 1..Len(kids) |-> cells[kids[k]]] = Children(cells[parent])                            \* exact order
=============================================================================

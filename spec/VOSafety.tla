------------------------------ MODULE VOSafety ------------------------------
(* "Valid confidence regions imply an eps-accurate output" (C01, C05) on a lattice.
   A hidden truth mu is fixed per behaviour; every round an ADVERSARIAL environment displays, for every active
   design, ANY region of the algorithm's kind that contains the design's truth; the algorithm's round is the
   step operator of VOAlgo applied to the relations VOGeometry computes from the displayed regions (stale regions of
   inactive designs are kept).  At termination the returned P must be accurate.

   Fam  : "paveba" | "vogp" | "auer"          Kind : "box" | "ball"
   W    : integer cone rows (2-D)             SD, SC : objective-space shifts for is_dominated / is_covered (boxes)
   AF   : per-facet slack for balls (is_covered), and the gap bound  w_n.(mu_j - mu_i) <= AE[n]  (both in W's row scale)
   EpsA : Auer's epsilon in doubled units     Iso  : Auer / PaVeBa display one common width (radius) per round      *)
EXTENDS VOAlgo, VOGeometry
CONSTANTS N, G, W, Fam, Kind, SD, SC, AF, AE, EpsA, Iso, RadMax, Step
\* Step: lattice pitch. With Step = 2 every coordinate is even, so 'robust' (answer unchanged by +-1 in every facet functional)
\* means 'not exactly on the boundary' - the configurations on which float code is unambiguous.

D     == 1..N
K     == Len(W)
Axis  == { Step * x : x \in 0..G }
Grid  == Axis \X Axis
AllBoxes == { b \in [lo : Grid, hi : Grid] : LeqV(b.lo, b.hi) }
Boxes == IF Fam = "auer" THEN AllBoxes ELSE { b \in AllBoxes : b.lo[1] < b.hi[1] /\ b.lo[2] < b.hi[2] }     \* Auer: zero widths are displayable
AroundTab == TLCEval([p \in Grid |-> { b \in Boxes : Contains(b, p) }])
Around(p) == AroundTab[p]
Pairs == { p \in D \X D : p[1] # p[2] }

\* ---- pair relation tables over Boxes x Boxes (constant-level: evaluated once and cached by TLC)
DomTab  == TLCEval([p \in Boxes \X Boxes |-> Dom(W, p[1], p[2], SD)])
CovTab  == TLCEval([p \in Boxes \X Boxes |-> LET lo == Sub(p[2].lo, p[1].hi)  hi == Sub(p[2].hi, p[1].lo)  t == WT(W, SC) IN
              << FeasibleV(lo, hi, W, [n \in 1..K |-> t[n] - 1]), FeasibleV(lo, hi, W, t), FeasibleV(lo, hi, W, [n \in 1..K |-> t[n] + 1]) >>])
PDomTab == TLCEval([p \in Boxes \X Boxes |-> << PDomT(W, p[1], p[2], -1), PDom(W, p[1], p[2]), PDomT(W, p[1], p[2], 1) >>])

VARIABLES mu, S, P, U, done, reg, rad, robust, rnd
vars == <<mu, S, P, U, done, reg, rad, robust, rnd>>
\* reg[i] : displayed box (Kind = "box") or a degenerate box lo = hi = centre (Kind = "ball") ; rad[i] : displayed radius (balls)

Whole == [lo |-> <<0,0>>, hi |-> <<Step*G,Step*G>>]
Init == /\ mu \in [D -> Grid] /\ S = D /\ P = {} /\ U = {} /\ done = FALSE
        /\ reg = [i \in D |-> Whole] /\ rad = [i \in D |-> 0] /\ robust = TRUE /\ rnd = 0

Act == IF Fam = "vogp" THEN S \cup P ELSE IF Fam = "auer" THEN S ELSE S \cup U

\* ---- relations of a displayed configuration
BoxRel(r) == [ a |-> { p \in Pairs : DomTab[<<r[p[1]], r[p[2]]>>] },
               b |-> { p \in Pairs : CovTab[<<r[p[1]], r[p[2]]>>][2] },
               c |-> { p \in Pairs : PDomTab[<<r[p[1]], r[p[2]]>>][2] },
               ok |-> \A p \in Pairs : /\ CovTab[<<r[p[1]], r[p[2]]>>][1] = CovTab[<<r[p[1]], r[p[2]]>>][3]
                                       /\ (Fam = "vogp" => PDomTab[<<r[p[1]], r[p[2]]>>][1] = PDomTab[<<r[p[1]], r[p[2]]>>][3]) ]
ZeroF == [n \in 1..K |-> 0]
BallRel(c, rr) == [ a |-> { p \in Pairs : BallDom(W, c[p[1]].lo, rr[p[1]], c[p[2]].lo, rr[p[2]], ZeroF) },
                    b |-> { p \in Pairs : BallCov(W, c[p[1]].lo, rr[p[1]], c[p[2]].lo, rr[p[2]], AF) },
                    c |-> {},
                    ok |-> \A p \in Pairs : BallCov(W, c[p[1]].lo, rr[p[1]], c[p[2]].lo, rr[p[2]], [n \in 1..K |-> AF[n] - 1])
                                            = BallCov(W, c[p[1]].lo, rr[p[1]], c[p[2]].lo, rr[p[2]], [n \in 1..K |-> AF[n] + 1]) ]
\* Auer on doubled centres c2 = lo + hi and doubled widths b2 = hi - lo ; np.all(scalar ? vector) semantics of the code
C2(b) == Add(b.lo, b.hi)     B2(b) == Sub(b.hi, b.lo)
SmallM(ci, cj) == Max2(0, Min2(cj[1] - ci[1], cj[2] - ci[2]))
BigM(ci, cj)   == Max2(0, Max2(ci[1] + EpsA - cj[1], ci[2] + EpsA - cj[2]))
HiW(bi, bj)    == Max2(bi[1] + bj[1], bi[2] + bj[2])
LoW(bi, bj)    == Min2(bi[1] + bj[1], bi[2] + bj[2])
AuerRel(r) == [ a |-> { p \in Pairs : SmallM(C2(r[p[1]]), C2(r[p[2]])) > HiW(B2(r[p[1]]), B2(r[p[2]])) },
                b |-> { p \in Pairs : BigM(C2(r[p[1]]), C2(r[p[2]])) < LoW(B2(r[p[1]]), B2(r[p[2]])) },
                c |-> { p \in Pairs : BigM(C2(r[p[1]]), C2(r[p[2]])) <= LoW(B2(r[p[1]]), B2(r[p[2]])) },   \* <<j,i>> : M(j,i) <= beta_i + beta_j
                ok |-> TRUE ]

StepOf(rl) == CASE Fam = "paveba" -> PavebaStep(S, P, U, rl.a, rl.b)
                [] Fam = "vogp"   -> VogpStep(S, P, rl.c, rl.a, rl.b, TRUE)
                [] OTHER          -> AuerStep(S, P, rl.a, rl.b, rl.c)

\* ---- one round: the environment displays valid regions for the active designs, the algorithm decides
RegFor(i) == IF i \in Act THEN Around(mu[i]) ELSE {reg[i]}
CAxis     == { Step * x : x \in (0-RadMax)..(G+RadMax) }
Centres   == CAxis \X CAxis
CenFor(i, r) == IF i \in Act THEN { [lo |-> c, hi |-> c] : c \in { c \in Centres : NormSq(Sub(c, mu[i])) <= r*r } } ELSE {reg[i]}
Commit(rr, rd, rl) == LET x == StepOf(rl) IN
   /\ reg' = rr /\ rad' = rd /\ S' = x.S /\ P' = x.P /\ U' = x.U /\ done' = (x.S = {})
   /\ robust' = (robust /\ rl.ok) /\ rnd' = rnd + 1 /\ UNCHANGED mu
RegForW(i, w) == IF i \in Act THEN { b \in Around(mu[i]) : (w >= 0) => B2(b) = <<w, w>> } ELSE {reg[i]}
RoundBox ==
   /\ Kind = "box" /\ ~done
   /\ \E w \in (IF Iso THEN { Step * x : x \in 0..G } ELSE {0-1}) :            \* Iso: one common (square) width per round
      \E r1 \in RegForW(1, w) : \E r2 \in (IF N >= 2 THEN RegForW(2, w) ELSE {Whole}) : \E r3 \in (IF N >= 3 THEN RegForW(3, w) ELSE {Whole}) :
        LET rr == [i \in D |-> IF i = 1 THEN r1 ELSE IF i = 2 THEN r2 ELSE r3] IN
        Commit(rr, rad, IF Fam = "auer" THEN AuerRel(rr) ELSE BoxRel(rr))
RoundBall ==
   /\ Kind = "ball" /\ ~done
   /\ \E r \in { Step * x : x \in 1..RadMax } :
      \E c1 \in CenFor(1, r) : \E c2 \in (IF N >= 2 THEN CenFor(2, r) ELSE {Whole}) : \E c3 \in (IF N >= 3 THEN CenFor(3, r) ELSE {Whole}) :
        LET cc == [i \in D |-> IF i = 1 THEN c1 ELSE IF i = 2 THEN c2 ELSE c3]
            rd == [i \in D |-> IF i \in Act THEN r ELSE rad[i]] IN
        Commit(cc, rd, BallRel(cc, rd))
Next == RoundBox \/ RoundBall
Spec == Init /\ [][Next]_vars

\* ---- what "accurate" means
WeakDom(j, i)  == InCone(W, Sub(mu[j], mu[i]))
GapLeEps(i)    == \A j \in D \ {i} : \E n \in 1..K : Dot(W[n], Sub(mu[j], mu[i])) <= AE[n]
AccurateP      == done => /\ \A i \in D \ P : \E j \in P : WeakDom(j, i)
                          /\ \A i \in P : GapLeEps(i)
Isolated(i)    == ~ \E j \in D \ {i} : InCone(W, Sub(Add(mu[j], SC), mu[i]))
MoreThanSlack(j, i) == \A n \in 1..K : Dot(W[n], Sub(Sub(mu[j], mu[i]), SC)) > 0
AccurateV      == done => /\ \A i \in D : Isolated(i) => i \in P
                          /\ \A i \in P : \A j \in P \ {i} : ~ MoreThanSlack(j, i)
AccuratePRobust == robust => AccurateP
AccurateVRobust == robust => AccurateV
\* ---- bridge to the relation-level theorems (VOAccuracyAbs, proved for every design set in proofs/VOAccuracyProofs): the conditions
\* V1-V3 / W1, W3 under which they hold are facts of the lattice geometry of THIS instantiation.  Evaluated once (ASSUME in the MC module).
PtsOf(b)   == { p \in Grid : Contains(b, p) }
Phi(z)     == LET RECURSIVE F(_)  F(n) == IF n = 0 THEN 0 ELSE Dot(W[n], z) + F(n-1) IN F(K)
RankBox(b) == LET v == { Phi(z) : z \in PtsOf(b) } IN CHOOSE x \in v : \A y \in v : y <= x
Exceeds(z, z2)  == \A n \in 1..K : Dot(W[n], Sub(z2, z)) > AE[n]                   \* z2 exceeds z by more than eps (its gap is > eps)
MoreThan(z, z2) == \A n \in 1..K : Dot(W[n], Sub(Sub(z2, z), SC)) > 0              \* z2 dominates z by more than the slack
BridgeBox ==
   \A p \in Boxes \X Boxes :
      /\ DomTab[p] => \A z \in PtsOf(p[1]) : \A z2 \in PtsOf(p[2]) : InCone(W, Sub(Add(z2, SD), z))                       \* V1 / W1
      /\ (Fam = "paveba" /\ DomTab[p]) => RankBox(p[2]) > RankBox(p[1])                                                     \* V2
      /\ \A z \in PtsOf(p[1]) : \A z2 \in PtsOf(p[2]) :
            (IF Fam = "paveba" THEN Exceeds(z, z2) ELSE MoreThan(z, z2)) => CovTab[p][2]                                    \* V3 / W3
BridgeTruth ==
   /\ \A a, b, c \in Grid : (Exceeds(a, b) /\ InCone(W, Sub(c, b))) => Exceeds(a, c)
   /\ \A a \in Grid : ~ Exceeds(a, a)
   /\ \A a, b, c \in Grid : (InCone(W, Sub(b, a)) /\ InCone(W, Sub(c, b))) => InCone(W, Sub(c, a))
   /\ (Fam = "vogp" => SD = SC)
\* Auer: pairwise versions of AuerRel on two displayable rectangles (both of the common width when Iso), conditions A1, A3, A4 of
\* VOAccuracyAbs with  wd = componentwise >=  and  ex = "exceeds by more than eps in every objective" (EpsA is 2 eps: doubled units)
GtB(b1, b2) == SmallM(C2(b1), C2(b2)) > HiW(B2(b1), B2(b2))
McB(b1, b2) == BigM(C2(b1), C2(b2)) < LoW(B2(b1), B2(b2))
NdB(b1, b2) == BigM(C2(b1), C2(b2)) <= LoW(B2(b1), B2(b2))
ExA(z, z2)  == \A n \in 1..2 : 2 * (z2[n] - z[n]) > EpsA
BridgeAuer ==
   \A p \in { q \in AllBoxes \X AllBoxes : Iso => (B2(q[1]) = B2(q[2]) /\ B2(q[1])[1] = B2(q[1])[2]) } :
      /\ GtB(p[1], p[2]) => /\ \A z \in PtsOf(p[1]) : \A z2 \in PtsOf(p[2]) : LeqV(z, z2)                                  \* A1
                            /\ RankBox(p[2]) > RankBox(p[1])                                                                 \* rank
      /\ \A z \in PtsOf(p[1]) : \A z2 \in PtsOf(p[2]) : ExA(z, z2) => (GtB(p[1], p[2]) \/ (McB(p[1], p[2]) /\ NdB(p[1], p[2])))   \* A3, A4 (or discarded)
Bridge == IF Fam = "auer" THEN Kind = "box" /\ BridgeAuer
          ELSE Kind = "box" /\ Fam \in {"paveba", "vogp"} /\ BridgeBox /\ BridgeTruth

Sane           == S \cap P = {} /\ U \subseteq P /\ (done => S = {})
\* the future depends on the displayed regions only through the STALE regions of inactive members of P (PaVeBa family:
\* useful_updating reads them); everything else is redrawn next round.  The view keeps exactly those.
View           == <<mu, S, P, U, done, robust, [i \in D |-> IF i \in P \ Act /\ ~done THEN <<reg[i], rad[i]>> ELSE <<>>]>>
ViewR          == <<mu, S, P, U, done, robust, reg, rad>>
Bound          == rnd <= 6
=============================================================================

---------------------------- MODULE VOSafetyMut ----------------------------
(* Goal-directed behaviour generation.  For a named SPEC MUTANT of the round (a plausible slip in the decision rule),
   the action property NoDiff says "the mutant and the real round never differ on a reachable, robust configuration".
   TLC's counterexample to NoDiff is a shortest behaviour on which they DO differ; replaying it into the real class
   shows the class follows the real rule and not the mutant (harness/safety.py).                                   *)
EXTENDS VOSafety
CONSTANT Mut

RelOf(rr, rd) == IF Kind = "ball" THEN BallRel(rr, rd) ELSE IF Fam = "auer" THEN AuerRel(rr) ELSE BoxRel(rr)

MutStep(rl, rr) ==
  CASE Mut = "cover-from-pess" ->        \* VOGP/eps-PAL: coverers drawn from the pessimistic set instead of S u P
         LET Pe == VogpPess(S, P, rl.c)  Dx == VogpDisc(S, P, rl.c, rl.a)  S1 == S \ Dx
             NP == { i \in S1 : ~ \E j \in Pe \ {i} : <<i,j>> \in rl.b } IN [S |-> S1 \ NP, P |-> P \cup NP, U |-> {}]
    [] Mut = "cover-from-S" ->           \* coverers drawn from the candidates only
         LET Dx == VogpDisc(S, P, rl.c, rl.a)  S1 == S \ Dx
             NP == { i \in S1 : ~ \E j \in S1 \ {i} : <<i,j>> \in rl.b } IN [S |-> S1 \ NP, P |-> P \cup NP, U |-> {}]
    [] Mut = "disc-witness-any" ->       \* discarding witnesses from all of S u P instead of the pessimistic set
         LET Pe == VogpPess(S, P, rl.c)  W0 == S \cup P
             Dx == { i \in S \ Pe : \E j \in W0 \ {i} : <<i,j>> \in rl.a }  S1 == S \ Dx
             NP == VogpNewP(S1, P, rl.b) IN [S |-> S1 \ NP, P |-> P \cup NP, U |-> {}]
    [] Mut = "disc-all-S" ->             \* every candidate may be discarded, pessimistic members included
         LET Pe == VogpPess(S, P, rl.c)
             Dx == { i \in S : \E j \in Pe \ {i} : <<i,j>> \in rl.a }  S1 == S \ Dx
             NP == VogpNewP(S1, P, rl.b) IN [S |-> S1 \ NP, P |-> P \cup NP, U |-> {}]
    [] Mut = "pess-over-S" ->            \* pessimistic set computed among the candidates only
         LET Pe == { i \in S : ~ \E j \in S \ {i} : <<j,i>> \in rl.c }
             Dx == { i \in S \ Pe : \E j \in Pe : <<i,j>> \in rl.a }  S1 == S \ Dx
             NP == VogpNewP(S1, P, rl.b) IN [S |-> S1 \ NP, P |-> P \cup NP, U |-> {}]
    [] Mut = "pess-stale" ->             \* pessimistic comparison also against designs that were discarded earlier (their stale regions)
         LET W0 == S \cup P  Pe == { i \in W0 : ~ \E j \in D \ {i} : <<j,i>> \in rl.c }
             Dx == { i \in S \ Pe : \E j \in Pe : <<i,j>> \in rl.a }  S1 == S \ Dx
             NP == VogpNewP(S1, P, rl.b) IN [S |-> S1 \ NP, P |-> P \cup NP, U |-> {}]
    [] Mut = "pdom-swapped" ->           \* pessimistic comparison with its arguments exchanged
         LET W0 == S \cup P  Pe == { i \in W0 : ~ \E j \in W0 \ {i} : <<i,j>> \in rl.c }
             Dx == { i \in S \ Pe : \E j \in Pe : <<i,j>> \in rl.a }  S1 == S \ Dx
             NP == VogpNewP(S1, P, rl.b) IN [S |-> S1 \ NP, P |-> P \cup NP, U |-> {}]
    [] Mut = "A-without-U" ->            \* PaVeBa family: useful designs forgotten as witnesses / coverers
         LET Dx == { i \in S : \E j \in S \ {i} : <<i,j>> \in rl.a }  S1 == S \ Dx
             NP == { i \in S1 : ~ \E j \in S1 \ {i} : <<i,j>> \in rl.b }  S2 == S1 \ NP  P2 == P \cup NP IN
         [S |-> S2, P |-> P2, U |-> PavebaUseful(S2, P2, rl.b)]
    [] Mut = "disc-witness-P" ->         \* discarding witnesses from S u P (stale, inactive members of P included) instead of S u U
         LET Dx == { i \in S : \E j \in (S \cup P) \ {i} : <<i,j>> \in rl.a }  S1 == S \ Dx
             NP == PavebaNewP(S1, U, rl.b)  S2 == S1 \ NP  P2 == P \cup NP IN
         [S |-> S2, P |-> P2, U |-> PavebaUseful(S2, P2, rl.b)]
    [] Mut = "cover-from-P" ->           \* coverers from S u P instead of S u U
         LET Dx == PavebaDisc(S, U, rl.a)  S1 == S \ Dx
             NP == { i \in S1 : ~ \E j \in (S1 \cup P) \ {i} : <<i,j>> \in rl.b }  S2 == S1 \ NP  P2 == P \cup NP IN
         [S |-> S2, P |-> P2, U |-> PavebaUseful(S2, P2, rl.b)]
    [] Mut = "useful-from-U" ->          \* useful set shrunk from the previous useful set instead of recomputed from P
         LET x == PavebaStep(S, P, U, rl.a, rl.b) IN
         [S |-> x.S, P |-> x.P, U |-> { p \in U \cup x.np : \E i \in x.S : <<i,p>> \in rl.b }]
    [] Mut = "useful-swapped" ->         \* cover test of the useful update with the regions exchanged
         LET x == PavebaStep(S, P, U, rl.a, rl.b) IN
         [S |-> x.S, P |-> x.P, U |-> { p \in x.P : \E i \in x.S : <<p,i>> \in rl.b }]
    [] Mut = "cover-swapped" ->
         LET Dx == PavebaDisc(S, U, rl.a)  S1 == S \ Dx
             NP == { i \in S1 : ~ \E j \in (S1 \cup U) \ {i} : <<j,i>> \in rl.b }  S2 == S1 \ NP  P2 == P \cup NP IN
         [S |-> S2, P |-> P2, U |-> PavebaUseful(S2, P2, rl.b)]
    [] Mut = "dom-swapped" ->
         LET Dx == { i \in S : \E j \in (S \cup U) \ {i} : <<j,i>> \in rl.a }  S1 == S \ Dx
             NP == PavebaNewP(S1, U, rl.b)  S2 == S1 \ NP  P2 == P \cup NP IN
         [S |-> S2, P |-> P2, U |-> PavebaUseful(S2, P2, rl.b)]
    [] Mut = "newU-in-cover" ->          \* the cover candidates use the useful set recomputed after discarding
         LET Dx == PavebaDisc(S, U, rl.a)  S1 == S \ Dx  U1 == PavebaUseful(S1, P, rl.b)
             NP == PavebaNewP(S1, U1, rl.b)  S2 == S1 \ NP  P2 == P \cup NP IN
         [S |-> S2, P |-> P2, U |-> PavebaUseful(S2, P2, rl.b)]
    [] Mut = "auer-p1-strict" ->         \* Auer: the hold-back test with < instead of <=
         LET Dx == AuerDisc(S, rl.a)  S1 == S \ Dx  P1 == AuerP1(S1, rl.b)
             NP == { i \in P1 : ~ \E j \in S1 \ P1 : <<j,i>> \in rl.b } IN [S |-> S1 \ NP, P |-> P \cup NP, U |-> {}]
    [] Mut = "auer-no-holdback" ->
         LET Dx == AuerDisc(S, rl.a)  S1 == S \ Dx  P1 == AuerP1(S1, rl.b) IN [S |-> S1 \ P1, P |-> P \cup P1, U |-> {}]
    [] Mut = "auer-holdback-all" ->      \* held back by any other candidate, passing ones included
         LET Dx == AuerDisc(S, rl.a)  S1 == S \ Dx  P1 == AuerP1(S1, rl.b)
             NP == { i \in P1 : ~ \E j \in S1 \ {i} : <<j,i>> \in rl.c } IN [S |-> S1 \ NP, P |-> P \cup NP, U |-> {}]
    [] Mut = "dom-corner" ->             \* is_dominated decided from one corner pair only (lower corner of j + slack vs upper corner of i)
         LET ac == { p \in Pairs : InCone(W, Sub(Add(rr[p[2]].lo, SD), rr[p[1]].hi)) } IN
         IF Fam = "vogp" THEN VogpStep(S, P, rl.c, ac, rl.b, TRUE) ELSE PavebaStep(S, P, U, ac, rl.b)
    [] OTHER -> StepOf(rl)

NoDiff == [][ LET rl == RelOf(reg', rad')  m == MutStep(rl, reg')  x == StepOf(rl) IN
              (~done /\ rl.ok) => (m.S = x.S /\ m.P = x.P /\ m.U = x.U) ]_vars
=============================================================================

------------------------- MODULE VOAccuracyProofs -------------------------
(* tlapm proofs of the relation-level accuracy theorems of spec/VOAccuracyAbs.tla for EVERY set of designs.
   (TLC checks the same invariants exhaustively for |D| <= 3.)                                               *)
EXTENDS VOAlgo, NaturalsInduction, TLAPS

(* ------------------------------------------------------------------ PaVeBa family (C01) *)
\* one round's discards: every discarded design is weakly dominated by a design that survives the round
THEOREM ChainLemma ==
  ASSUME NEW D, NEW wd, NEW S, NEW U, NEW dom, NEW B \in Nat, NEW r \in [D -> 0..B],
         S \subseteq D, U \subseteq D,
         \A i, j, k \in D : <<i,j>> \in wd /\ <<j,k>> \in wd => <<i,k>> \in wd,
         \A i \in S : \A j \in (S \cup U) \ {i} : <<i,j>> \in dom => <<i,j>> \in wd /\ r[j] > r[i]
  PROVE  \A i \in PavebaDisc(S, U, dom) : \E j \in (S \cup U) \ PavebaDisc(S, U, dom) : <<i,j>> \in wd
<1> DEFINE Dc == PavebaDisc(S, U, dom)
           Live == (S \cup U) \ Dc
           Q(n) == \A i \in Dc : B - r[i] <= n => \E j \in Live : <<i,j>> \in wd
<1>0. Dc \subseteq S /\ \A i \in Dc : \E j \in (S \cup U) \ {i} : <<i,j>> \in dom
  BY DEF PavebaDisc
<1>r. \A i \in D : r[i] \in 0..B
  OBVIOUS
<1>1. Q(0)
  <2> SUFFICES ASSUME NEW i \in Dc, B - r[i] <= 0 PROVE FALSE
    OBVIOUS
  <2>1. PICK j \in (S \cup U) \ {i} : <<i,j>> \in dom
    BY <1>0
  <2>2. r[j] > r[i] /\ r[j] \in 0..B /\ r[i] \in 0..B
    BY <2>1, <1>0, <1>r
  <2> QED BY <2>2
<1>2. ASSUME NEW n \in Nat, Q(n) PROVE Q(n+1)
  <2> SUFFICES ASSUME NEW i \in Dc, B - r[i] <= n + 1 PROVE \E j \in Live : <<i,j>> \in wd
    OBVIOUS
  <2>1. PICK j \in (S \cup U) \ {i} : <<i,j>> \in dom
    BY <1>0
  <2>2. <<i,j>> \in wd /\ r[j] > r[i] /\ r[j] \in 0..B /\ r[i] \in 0..B /\ i \in D /\ j \in D
    BY <2>1, <1>0, <1>r
  <2>3. CASE j \notin Dc
    BY <2>1, <2>2, <2>3
  <2>4. CASE j \in Dc
    <3>1. B - r[j] <= n
      BY <2>2
    <3>2. PICK k \in Live : <<j,k>> \in wd
      BY <1>2, <2>4, <3>1
    <3>3. k \in D
      OBVIOUS
    <3> QED BY <2>2, <3>2, <3>3
  <2> QED BY <2>3, <2>4
<1>3. \A n \in Nat : Q(n)
  <2> HIDE DEF Q
  <2> QED BY <1>1, <1>2, NatInduction
<1>4. \A i \in Dc : B - r[i] <= B /\ B \in Nat
  BY <1>0, <1>r
<1> QED BY <1>3, <1>4
CoverOf(D0, wd0, S0, P0)   == \A i \in D0 \ (S0 \cup P0) : \E j \in S0 \cup P0 : <<i,j>> \in wd0
UsefulOf(ex0, S0, P0, U0)  == \A i \in S0 : \A k \in P0 : <<i,k>> \in ex0 => k \in U0
GapOf(D0, ex0, P0)         == \A i \in P0 : \A j \in D0 : <<i,j>> \notin ex0
TruthAx(D0, wd0, ex0) == /\ \A i \in D0 : <<i,i>> \in wd0 /\ <<i,i>> \notin ex0
                         /\ \A i, j, k \in D0 : <<i,j>> \in wd0 /\ <<j,k>> \in wd0 => <<i,k>> \in wd0
                         /\ \A i, j, k \in D0 : <<i,j>> \in ex0 /\ <<j,k>> \in wd0 => <<i,k>> \in ex0
\* what "every active design's truth lies in its displayed region" gives for one round's relations
ValidP(D0, wd0, ex0, S0, U0, dom, cov, B, r) ==
   /\ \A i \in S0 : \A j \in (S0 \cup U0) \ {i} : <<i,j>> \in dom => <<i,j>> \in wd0 /\ r[j] > r[i]      \* V1, V2
   /\ \A i \in S0 : \A k \in (S0 \cup U0) \ {i} : <<i,k>> \in ex0 => <<i,k>> \in cov                      \* V3

THEOREM PavebaRound ==
  ASSUME NEW D, NEW wd, NEW ex, NEW S, NEW P, NEW U, NEW dom, NEW cov, NEW B \in Nat, NEW r \in [D -> 0..B],
         S \subseteq D, P \subseteq D, S \cap P = {}, U \subseteq P,
         TruthAx(D, wd, ex), ValidP(D, wd, ex, S, U, dom, cov, B, r),
         CoverOf(D, wd, S, P), UsefulOf(ex, S, P, U), GapOf(D, ex, P)
  PROVE  LET x == PavebaStep(S, P, U, dom, cov) IN
         CoverOf(D, wd, x.S, x.P) /\ UsefulOf(ex, x.S, x.P, x.U) /\ GapOf(D, ex, x.P)
<1> DEFINE Dc == PavebaDisc(S, U, dom)
           S1 == S \ Dc
           NP == PavebaNewP(S1, U, cov)
           S2 == S1 \ NP
           P2 == P \cup NP
           U2 == PavebaUseful(S2, P2, cov)
           Live == (S \cup U) \ Dc
<1>a. PavebaStep(S, P, U, dom, cov).S = S2 /\ PavebaStep(S, P, U, dom, cov).P = P2 /\ PavebaStep(S, P, U, dom, cov).U = U2
  BY DEF PavebaStep
<1>b. Dc \subseteq S /\ NP \subseteq S1 /\ Live \subseteq S2 \cup P2 /\ S2 \cup P2 = (S \cup P) \ Dc /\ Live \subseteq S1 \cup U /\ Live \subseteq D
  BY DEF PavebaDisc, PavebaNewP
<1>c. \A i \in Dc : \E j \in Live : <<i,j>> \in wd
  <2>1. U \subseteq D
    OBVIOUS
  <2> QED BY <2>1, ChainLemma DEF TruthAx, ValidP
\* every design, live or not, is weakly dominated by a design that is live after the round
<1>e. \A i \in D : \E j \in Live \cup (P \ U) : <<i,j>> \in wd
  <2> SUFFICES ASSUME NEW i \in D PROVE \E j \in Live \cup (P \ U) : <<i,j>> \in wd
    OBVIOUS
  <2>1. PICK j0 \in S \cup P : <<i,j0>> \in wd
    BY DEF CoverOf, TruthAx
  <2>2. CASE j0 \in Dc
    <3>1. PICK k \in Live : <<j0,k>> \in wd
      BY <2>2, <1>c
    <3> QED BY <2>1, <3>1, <1>b DEF TruthAx
  <2>3. CASE j0 \notin Dc
    BY <2>1, <2>3
  <2> QED BY <2>2, <2>3
<1>1. CoverOf(D, wd, S2, P2)
  <2> SUFFICES ASSUME NEW i \in D \ (S2 \cup P2) PROVE \E j \in S2 \cup P2 : <<i,j>> \in wd
    BY DEF CoverOf
  <2>1. PICK j \in Live \cup (P \ U) : <<i,j>> \in wd
    BY <1>e
  <2>2. j \in S2 \cup P2
    BY <1>b
  <2> QED BY <2>1, <2>2
<1>2. UsefulOf(ex, S2, P2, U2)
  <2> SUFFICES ASSUME NEW i \in S2, NEW k \in P2, <<i,k>> \in ex PROVE k \in U2
    BY DEF UsefulOf
  <2>1. i \in S /\ i \in D /\ k \in D
    BY <1>b
  <2>2. k # i
    BY <2>1 DEF TruthAx
  <2>3. k \in S \cup U
    <3>1. CASE k \in P
      BY <3>1, <2>1 DEF UsefulOf
    <3>2. CASE k \in NP
      BY <3>2, <1>b
    <3> QED BY <3>1, <3>2
  <2>4. <<i,k>> \in cov
    BY <2>1, <2>2, <2>3 DEF ValidP
  <2> QED BY <2>4 DEF PavebaUseful
<1>3. GapOf(D, ex, P2)
  <2> SUFFICES ASSUME NEW i \in P2, NEW j \in D, <<i,j>> \in ex PROVE FALSE
    BY DEF GapOf
  <2>1. CASE i \in P
    BY <2>1 DEF GapOf
  <2>2. CASE i \in NP
    <3>1. i \in S1 /\ i \in S /\ i \in D /\ \A k \in (S1 \cup U) \ {i} : <<i,k>> \notin cov
      BY <2>2, <1>b DEF PavebaNewP
    <3>2. PICK k \in Live \cup (P \ U) : <<j,k>> \in wd
      BY <1>e
    <3>3. k \in D /\ <<i,k>> \in ex
      BY <3>1, <3>2, <1>b DEF TruthAx
    <3>4. k \in Live
      BY <3>1, <3>2, <3>3 DEF UsefulOf
    <3>5. k # i
      BY <3>1, <3>3 DEF TruthAx
    <3>6. <<i,k>> \in cov
      BY <3>1, <3>3, <3>4, <3>5 DEF ValidP
    <3> QED BY <3>1, <3>4, <3>5, <3>6, <1>b
  <2> QED BY <2>1, <2>2
<1> QED BY <1>a, <1>1, <1>2, <1>3

(* ------------------------------------------------------------------ VOGP / eps-PAL (C05) *)
IsoOf(D0, sd0, S0, P0)  == \A i \in D0 : (~ \E j \in D0 \ {i} : <<i,j>> \in sd0) => i \in S0 \cup P0
NoMoOf(mo0, S0, P0)     == \A i \in P0 : \A j \in (S0 \cup P0) \ {i} : <<i,j>> \notin mo0
ValidV(sd0, mo0, S0, P0, dom, cov) ==
   /\ \A i \in S0 : \A j \in (S0 \cup P0) \ {i} : <<i,j>> \in dom => <<i,j>> \in sd0                       \* W1
   /\ \A i \in S0 : \A j \in (S0 \cup P0) \ {i} : <<i,j>> \in mo0 => <<i,j>> \in cov                       \* W3

THEOREM VogpRound ==
  ASSUME NEW D, NEW sd, NEW mo, NEW S, NEW P, NEW pdom, NEW dom, NEW cov, NEW g \in BOOLEAN,
         S \subseteq D, P \subseteq D, S \cap P = {},
         ValidV(sd, mo, S, P, dom, cov), IsoOf(D, sd, S, P), NoMoOf(mo, S, P)
  PROVE  LET x == VogpStep(S, P, pdom, dom, cov, g) IN IsoOf(D, sd, x.S, x.P) /\ NoMoOf(mo, x.S, x.P)
<1> DEFINE Pe == VogpPess(S, P, pdom)
           Dc == VogpDisc(S, P, pdom, dom)
           S1 == S \ Dc
           NP == IF g THEN VogpNewP(S1, P, cov) ELSE {}
           S2 == S1 \ NP
           P2 == P \cup NP
<1>a. VogpStep(S, P, pdom, dom, cov, g).S = S2 /\ VogpStep(S, P, pdom, dom, cov, g).P = P2
  BY DEF VogpStep
<1>b. Dc \subseteq S /\ NP \subseteq S1 /\ S2 \cup P2 = (S \cup P) \ Dc /\ S2 \cup P2 = S1 \cup P
  BY DEF VogpDisc, VogpNewP
<1>1. IsoOf(D, sd, S2, P2)
  <2> SUFFICES ASSUME NEW i \in D, ~ \E j \in D \ {i} : <<i,j>> \in sd PROVE i \in S2 \cup P2
    BY DEF IsoOf
  <2>1. i \in S \cup P
    BY DEF IsoOf
  <2>2. i \notin Dc
    <3> SUFFICES ASSUME i \in Dc PROVE FALSE
      OBVIOUS
    <3>1. i \in S \ Pe /\ \E j \in Pe : <<i,j>> \in dom
      BY DEF VogpDisc
    <3>2. PICK j \in Pe : <<i,j>> \in dom
      BY <3>1
    <3>3. j # i /\ j \in S \cup P
      BY <3>1 DEF VogpPess
    <3>4. <<i,j>> \in sd /\ j \in D
      BY <3>1, <3>2, <3>3 DEF ValidV
    <3> QED BY <3>3, <3>4
  <2> QED BY <2>1, <2>2, <1>b
<1>2. NoMoOf(mo, S2, P2)
  <2> SUFFICES ASSUME NEW i \in P2, NEW j \in (S2 \cup P2) \ {i}, <<i,j>> \in mo PROVE FALSE
    BY DEF NoMoOf
  <2>0. j \in (S \cup P) \ {i} /\ j \in (S1 \cup P) \ {i}
    BY <1>b
  <2>1. CASE i \in P
    BY <2>1, <2>0 DEF NoMoOf
  <2>2. CASE i \in NP
    <3>1. i \in S1 /\ i \in S /\ \A k \in (S1 \cup P) \ {i} : <<i,k>> \notin cov
      BY <2>2, <1>b DEF VogpNewP
    <3>2. <<i,j>> \in cov
      BY <3>1, <2>0 DEF ValidV
    <3> QED BY <3>1, <3>2, <2>0
  <2> QED BY <2>1, <2>2
<1> QED BY <1>a, <1>1, <1>2

(* ------------------------------------------------------------------ Auer (C01) *)
HeldOf(ex0, S0, P0) == \A i \in S0 : \A k \in P0 : <<i,k>> \notin ex0
ValidA(wd0, ex0, S0, gt, mc, nd, r) ==
   /\ \A i \in S0 : \A j \in S0 \ {i} : <<i,j>> \in gt => <<i,j>> \in wd0 /\ r[j] > r[i]          \* A1 + rank
   /\ \A i \in S0 : \A j \in S0 \ {i} : <<i,j>> \in ex0 => \/ <<i,j>> \in gt                       \* (then i is discarded this round)
                                                              \/ <<i,j>> \in mc /\ <<i,j>> \in nd       \* A3, A4

THEOREM AuerRound ==
  ASSUME NEW D, NEW wd, NEW ex, NEW S, NEW P, NEW gt, NEW mc, NEW nd, NEW B \in Nat, NEW r \in [D -> 0..B],
         S \subseteq D, P \subseteq D, S \cap P = {},
         TruthAx(D, wd, ex), ValidA(wd, ex, S, gt, mc, nd, r),
         CoverOf(D, wd, S, P), HeldOf(ex, S, P), GapOf(D, ex, P)
  PROVE  LET x == AuerStep(S, P, gt, mc, nd) IN
         CoverOf(D, wd, x.S, x.P) /\ HeldOf(ex, x.S, x.P) /\ GapOf(D, ex, x.P)
<1> DEFINE Dc == AuerDisc(S, gt)
           S1 == S \ Dc
           P1 == AuerP1(S1, mc)
           NP == AuerNewP(S1, P1, nd)
           S2 == S1 \ NP
           P2 == P \cup NP
<1>a. AuerStep(S, P, gt, mc, nd).S = S2 /\ AuerStep(S, P, gt, mc, nd).P = P2
  BY DEF AuerStep
<1>b. Dc \subseteq S /\ P1 \subseteq S1 /\ NP \subseteq P1 /\ S2 \cup P2 = S1 \cup P /\ S1 \subseteq D
  BY DEF AuerDisc, AuerP1, AuerNewP
<1>c. \A i \in Dc : \E j \in S1 : <<i,j>> \in wd
  <2> DEFINE U0 == {}
  <2>1. Dc = PavebaDisc(S, U0, gt) /\ S1 = (S \cup U0) \ PavebaDisc(S, U0, gt)
    BY DEF AuerDisc, PavebaDisc
  <2>2. \A i \in S : \A j \in (S \cup U0) \ {i} : <<i,j>> \in gt => <<i,j>> \in wd /\ r[j] > r[i]
    BY DEF ValidA
  <2>3. U0 \subseteq D
    OBVIOUS
  <2>4. \A i, j, k \in D : <<i,j>> \in wd /\ <<j,k>> \in wd => <<i,k>> \in wd
    BY DEF TruthAx
  <2>5. \A i \in PavebaDisc(S, U0, gt) : \E j \in (S \cup U0) \ PavebaDisc(S, U0, gt) : <<i,j>> \in wd
    <3> HIDE DEF U0
    <3> QED BY <2>2, <2>3, <2>4, ChainLemma
  <2> QED BY <2>1, <2>5
<1>e. \A i \in D : \E j \in S1 \cup P : <<i,j>> \in wd
  <2> SUFFICES ASSUME NEW i \in D PROVE \E j \in S1 \cup P : <<i,j>> \in wd
    OBVIOUS
  <2>1. PICK j0 \in S \cup P : <<i,j0>> \in wd
    BY DEF CoverOf, TruthAx
  <2>2. CASE j0 \in Dc
    <3>1. PICK k \in S1 : <<j0,k>> \in wd
      BY <2>2, <1>c
    <3> QED BY <2>1, <3>1, <1>b DEF TruthAx
  <2>3. CASE j0 \notin Dc
    BY <2>1, <2>3
  <2> QED BY <2>2, <2>3
<1>1. CoverOf(D, wd, S2, P2)
  BY <1>e, <1>b DEF CoverOf
<1>2. HeldOf(ex, S2, P2)
  <2> SUFFICES ASSUME NEW i \in S2, NEW k \in P2, <<i,k>> \in ex PROVE FALSE
    BY DEF HeldOf
  <2>0. i \in S1 /\ i \in S /\ i \in D /\ i \notin NP
    BY <1>b
  <2>1. CASE k \in P
    BY <2>1, <2>0 DEF HeldOf
  <2>2. CASE k \in NP
    <3>1. k \in P1 /\ k \in S1 /\ k \in S /\ k \in D
      BY <2>2, <1>b
    <3>2. k # i
      BY <2>0, <3>1 DEF TruthAx
    <3>g. <<i,k>> \notin gt
      BY <2>0, <3>1, <3>2 DEF AuerDisc
    <3>3. <<i,k>> \in mc /\ <<i,k>> \in nd
      BY <2>0, <3>1, <3>2, <3>g DEF ValidA
    <3>4. i \notin P1
      BY <2>0, <3>1, <3>2, <3>3 DEF AuerP1
    <3>5. k \notin NP
      BY <2>0, <3>3, <3>4 DEF AuerNewP
    <3> QED BY <2>2, <3>5
  <2> QED BY <2>1, <2>2
<1>3. GapOf(D, ex, P2)
  <2> SUFFICES ASSUME NEW i \in P2, NEW j \in D, <<i,j>> \in ex PROVE FALSE
    BY DEF GapOf
  <2>1. CASE i \in P
    BY <2>1 DEF GapOf
  <2>2. CASE i \in NP
    <3>1. i \in P1 /\ i \in S1 /\ i \in S /\ i \in D
      BY <2>2, <1>b
    <3>2. PICK k \in S1 \cup P : <<j,k>> \in wd
      BY <1>e
    <3>3. k \in D /\ <<i,k>> \in ex /\ k # i
      BY <3>1, <3>2, <1>b DEF TruthAx
    <3>4. CASE k \in P
      BY <3>1, <3>3, <3>4 DEF HeldOf
    <3>5. CASE k \in S1
      <4>0. k \in S /\ <<i,k>> \notin gt
        BY <3>1, <3>3, <3>5, <1>b DEF AuerDisc
      <4>1. <<i,k>> \in mc
        BY <3>1, <3>3, <3>5, <4>0, <1>b DEF ValidA
      <4> QED BY <3>1, <3>3, <3>5, <4>1 DEF AuerP1
    <3> QED BY <3>2, <3>4, <3>5
  <2> QED BY <2>1, <2>2
<1> QED BY <1>a, <1>1, <1>2, <1>3

(* ------------------------------------------------------------------ whole runs *)
CONSTANTS D, wd, ex          \* for VOGP / eps-PAL: wd is read as sd (mu_j + slack dominates mu_i), ex as mo (by more than the slack)
VARIABLES S, P, U
vars == <<S, P, U>>
Init  == S = D /\ P = {} /\ U = {}
PNext == \E dom \in SUBSET (D \X D), cov \in SUBSET (D \X D), B \in Nat : \E r \in [D -> 0..B] :
           /\ ValidP(D, wd, ex, S, U, dom, cov, B, r)
           /\ LET x == PavebaStep(S, P, U, dom, cov) IN S' = x.S /\ P' = x.P /\ U' = x.U
VNext == \E pdom \in SUBSET (D \X D), dom \in SUBSET (D \X D), cov \in SUBSET (D \X D), g \in BOOLEAN :
           /\ ValidV(wd, ex, S, P, dom, cov)
           /\ LET x == VogpStep(S, P, pdom, dom, cov, g) IN S' = x.S /\ P' = x.P /\ U' = x.U
PSpec == Init /\ [][PNext]_vars
VSpec == Init /\ [][VNext]_vars

PInv == /\ S \subseteq D /\ P \subseteq D /\ S \cap P = {} /\ U \subseteq P
        /\ CoverOf(D, wd, S, P) /\ UsefulOf(ex, S, P, U) /\ GapOf(D, ex, P)
VInv == /\ S \subseteq D /\ P \subseteq D /\ S \cap P = {}
        /\ IsoOf(D, wd, S, P) /\ NoMoOf(ex, S, P)

\* C01 (PaVeBa family): valid regions in every round => at termination every design outside P is weakly dominated by a member of P
\* and every member of P has gap at most eps
AccurateP == S = {} => /\ \A i \in D \ P : \E j \in P : <<i,j>> \in wd
                       /\ \A i \in P : \A j \in D : <<i,j>> \notin ex
\* C05 (VOGP, eps-PAL): every design that nothing matches up to the slack is in P, and no member of P is dominated by another by more than the slack
AccurateV == S = {} => /\ \A i \in D : (~ \E j \in D \ {i} : <<i,j>> \in wd) => i \in P
                       /\ \A i \in P : \A j \in P \ {i} : <<i,j>> \notin ex

THEOREM PavebaAccurate == ASSUME TruthAx(D, wd, ex) PROVE PSpec => [](PInv /\ AccurateP)
<1>1. Init => PInv
  BY DEF Init, PInv, CoverOf, UsefulOf, GapOf
<1>2. PInv /\ [PNext]_vars => PInv'
  <2> SUFFICES ASSUME PInv, [PNext]_vars PROVE PInv'
    OBVIOUS
  <2>1. CASE UNCHANGED vars
    BY <2>1 DEF vars, PInv, CoverOf, UsefulOf, GapOf
  <2>2. CASE PNext
    <3>0. PICK dom \in SUBSET (D \X D), cov \in SUBSET (D \X D), B \in Nat : \E r \in [D -> 0..B] :
               /\ ValidP(D, wd, ex, S, U, dom, cov, B, r)
               /\ LET x == PavebaStep(S, P, U, dom, cov) IN S' = x.S /\ P' = x.P /\ U' = x.U
      BY <2>2 DEF PNext
    <3>1. PICK r \in [D -> 0..B] :
               /\ ValidP(D, wd, ex, S, U, dom, cov, B, r)
               /\ LET x == PavebaStep(S, P, U, dom, cov) IN S' = x.S /\ P' = x.P /\ U' = x.U
      BY <3>0
    <3>2. LET x == PavebaStep(S, P, U, dom, cov) IN
          CoverOf(D, wd, x.S, x.P) /\ UsefulOf(ex, x.S, x.P, x.U) /\ GapOf(D, ex, x.P)
      BY <3>1, PavebaRound DEF PInv
    <3>3. LET x == PavebaStep(S, P, U, dom, cov) IN
          x.S \subseteq D /\ x.P \subseteq D /\ x.S \cap x.P = {} /\ x.U \subseteq x.P
      BY DEF PInv, PavebaStep, PavebaDisc, PavebaNewP, PavebaUseful
    <3> QED BY <3>1, <3>2, <3>3 DEF PInv
  <2> QED BY <2>1, <2>2
<1>3. PInv => AccurateP
  BY DEF PInv, AccurateP, CoverOf, GapOf
<1> QED BY <1>1, <1>2, <1>3, PTL DEF PSpec

THEOREM VogpAccurate == VSpec => [](VInv /\ AccurateV)
<1>1. Init => VInv
  BY DEF Init, VInv, IsoOf, NoMoOf
<1>2. VInv /\ [VNext]_vars => VInv'
  <2> SUFFICES ASSUME VInv, [VNext]_vars PROVE VInv'
    OBVIOUS
  <2>1. CASE UNCHANGED vars
    BY <2>1 DEF vars, VInv, IsoOf, NoMoOf
  <2>2. CASE VNext
    <3>1. PICK pdom \in SUBSET (D \X D), dom \in SUBSET (D \X D), cov \in SUBSET (D \X D), g \in BOOLEAN :
               /\ ValidV(wd, ex, S, P, dom, cov)
               /\ LET x == VogpStep(S, P, pdom, dom, cov, g) IN S' = x.S /\ P' = x.P /\ U' = x.U
      BY <2>2 DEF VNext
    <3>2. LET x == VogpStep(S, P, pdom, dom, cov, g) IN IsoOf(D, wd, x.S, x.P) /\ NoMoOf(ex, x.S, x.P)
      BY <3>1, VogpRound DEF VInv
    <3>3. LET x == VogpStep(S, P, pdom, dom, cov, g) IN x.S \subseteq D /\ x.P \subseteq D /\ x.S \cap x.P = {}
      BY DEF VInv, VogpStep, VogpDisc, VogpNewP, VogpPess
    <3> QED BY <3>1, <3>2, <3>3 DEF VInv
  <2> QED BY <2>1, <2>2
<1>3. VInv => AccurateV
  BY DEF VInv, AccurateV, IsoOf, NoMoOf
<1> QED BY <1>1, <1>2, <1>3, PTL DEF VSpec
ANext == \E gt \in SUBSET (D \X D), mc \in SUBSET (D \X D), nd \in SUBSET (D \X D), B \in Nat : \E r \in [D -> 0..B] :
           /\ ValidA(wd, ex, S, gt, mc, nd, r)
           /\ LET x == AuerStep(S, P, gt, mc, nd) IN S' = x.S /\ P' = x.P /\ U' = x.U
ASpec == Init /\ [][ANext]_vars
AInv  == /\ S \subseteq D /\ P \subseteq D /\ S \cap P = {}
         /\ CoverOf(D, wd, S, P) /\ HeldOf(ex, S, P) /\ GapOf(D, ex, P)

\* C01 (Auer): same statement; the hold-back rule of pareto_updating is what keeps HeldOf
THEOREM AuerAccurate == ASSUME TruthAx(D, wd, ex) PROVE ASpec => [](AInv /\ AccurateP)
<1>1. Init => AInv
  BY DEF Init, AInv, CoverOf, HeldOf, GapOf
<1>2. AInv /\ [ANext]_vars => AInv'
  <2> SUFFICES ASSUME AInv, [ANext]_vars PROVE AInv'
    OBVIOUS
  <2>1. CASE UNCHANGED vars
    BY <2>1 DEF vars, AInv, CoverOf, HeldOf, GapOf
  <2>2. CASE ANext
    <3>0. PICK gt \in SUBSET (D \X D), mc \in SUBSET (D \X D), nd \in SUBSET (D \X D), B \in Nat : \E r \in [D -> 0..B] :
               /\ ValidA(wd, ex, S, gt, mc, nd, r)
               /\ LET x == AuerStep(S, P, gt, mc, nd) IN S' = x.S /\ P' = x.P /\ U' = x.U
      BY <2>2 DEF ANext
    <3>1. PICK r \in [D -> 0..B] :
               /\ ValidA(wd, ex, S, gt, mc, nd, r)
               /\ LET x == AuerStep(S, P, gt, mc, nd) IN S' = x.S /\ P' = x.P /\ U' = x.U
      BY <3>0
    <3>2. LET x == AuerStep(S, P, gt, mc, nd) IN
          CoverOf(D, wd, x.S, x.P) /\ HeldOf(ex, x.S, x.P) /\ GapOf(D, ex, x.P)
      BY <3>1, AuerRound DEF AInv
    <3>3. LET x == AuerStep(S, P, gt, mc, nd) IN x.S \subseteq D /\ x.P \subseteq D /\ x.S \cap x.P = {}
      BY DEF AInv, AuerStep, AuerDisc, AuerP1, AuerNewP
    <3> QED BY <3>1, <3>2, <3>3 DEF AInv
  <2> QED BY <2>1, <2>2
<1>3. AInv => AccurateP
  BY DEF AInv, AccurateP, CoverOf, GapOf
<1> QED BY <1>1, <1>2, <1>3, PTL DEF ASpec
=============================================================================

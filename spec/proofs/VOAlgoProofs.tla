--------------------------- MODULE VOAlgoProofs ---------------------------
(* Unbounded structural facts about the step operators of VOAlgo - any set of designs, any relations, any number
   of rounds - checked by the TLA+ proof system (tlapm).  TLC establishes the same facts only for N <= 4 designs.
   They are the set-level half of C06 (S only shrinks, P only grows, S and P disjoint, useful designs are members
   of P, every design is in exactly one of S, P, discarded) and of C02 (a VOGP discard has a witness in the
   pessimistic set and is itself outside it).                                                                    *)
EXTENDS VOAlgo, TLAPS
CONSTANT D
VARIABLES S, P, U
vars == <<S, P, U>>

THEOREM PavebaStepSane ==
  ASSUME NEW S0, NEW P0, NEW U0, NEW dom, NEW cov, S0 \cap P0 = {}, U0 \subseteq P0
  PROVE  LET x == PavebaStep(S0, P0, U0, dom, cov) IN
         /\ x.S \subseteq S0 /\ P0 \subseteq x.P
         /\ x.S \cap x.P = {}
         /\ x.U \subseteq x.P
         /\ x.S \cup x.P \cup x.disc = S0 \cup P0
         /\ x.disc \cap (x.S \cup x.P) = {}
         /\ x.np = x.P \ P0
  BY DEF PavebaStep, PavebaDisc, PavebaNewP, PavebaUseful

THEOREM VogpStepSane ==
  ASSUME NEW S0, NEW P0, NEW pdom, NEW dom, NEW cov, NEW g \in BOOLEAN, S0 \cap P0 = {}
  PROVE  LET x == VogpStep(S0, P0, pdom, dom, cov, g) IN
         /\ x.S \subseteq S0 /\ P0 \subseteq x.P
         /\ x.S \cap x.P = {}
         /\ x.S \cup x.P \cup x.disc = S0 \cup P0
         /\ x.disc \cap (x.S \cup x.P) = {}
         /\ x.disc \cap VogpPess(S0, P0, pdom) = {}
         /\ \A i \in x.disc : \E j \in VogpPess(S0, P0, pdom) : <<i, j>> \in dom
         /\ (~g => x.P = P0)
  BY DEF VogpStep, VogpDisc, VogpNewP, VogpPess

THEOREM AuerStepSane ==
  ASSUME NEW S0, NEW P0, NEW gt, NEW mc, NEW nd, S0 \cap P0 = {}
  PROVE  LET x == AuerStep(S0, P0, gt, mc, nd) IN
         /\ x.S \subseteq S0 /\ P0 \subseteq x.P
         /\ x.S \cap x.P = {}
         /\ x.S \cup x.P \cup x.disc = S0 \cup P0
         /\ x.np \subseteq x.p1
  BY DEF AuerStep, AuerDisc, AuerP1, AuerNewP

(* ---- a run of any of the algorithms over an arbitrary design set, with arbitrary relations in every round ---- *)
Rel == SUBSET (D \X D)
Init  == S = D /\ P = {} /\ U = {}
PStep == \E dom \in Rel, cov \in Rel :
           LET x == PavebaStep(S, P, U, dom, cov) IN S' = x.S /\ P' = x.P /\ U' = x.U
VStep == \E pdom \in Rel, dom \in Rel, cov \in Rel, g \in BOOLEAN :
           LET x == VogpStep(S, P, pdom, dom, cov, g) IN S' = x.S /\ P' = x.P /\ U' = x.U
AStep == \E gt \in Rel, mc \in Rel, nd \in Rel :
           LET x == AuerStep(S, P, gt, mc, nd) IN S' = x.S /\ P' = x.P /\ U' = x.U
Next == PStep \/ VStep \/ AStep
Spec == Init /\ [][Next]_vars

Sane == /\ S \cap P = {} /\ U \subseteq P /\ S \subseteq D /\ P \subseteq D
Mono == S' \subseteq S /\ P \subseteq P'

THEOREM SaneInvariant == Spec => []Sane
<1>1. Init => Sane
  BY DEF Init, Sane
<1>2. Sane /\ [Next]_vars => Sane'
  <2> SUFFICES ASSUME Sane, [Next]_vars PROVE Sane'
    OBVIOUS
  <2>1. CASE PStep
    BY <2>1 DEF PStep, Sane, PavebaStep, PavebaDisc, PavebaNewP, PavebaUseful
  <2>2. CASE VStep
    BY <2>2 DEF VStep, Sane, VogpStep, VogpDisc, VogpNewP, VogpPess
  <2>3. CASE AStep
    BY <2>3 DEF AStep, Sane, AuerStep, AuerDisc, AuerP1, AuerNewP
  <2>4. CASE UNCHANGED vars
    BY <2>4 DEF vars, Sane
  <2> QED BY <2>1, <2>2, <2>3, <2>4 DEF Next
<1> QED BY <1>1, <1>2, PTL DEF Spec

THEOREM Monotone == Spec => [][Mono]_vars
<1>1. Sane /\ [Next]_vars => [Mono]_vars
  <2> SUFFICES ASSUME Sane, [Next]_vars PROVE [Mono]_vars
    OBVIOUS
  <2>1. CASE PStep
    BY <2>1 DEF PStep, Sane, Mono, PavebaStep, PavebaDisc, PavebaNewP, PavebaUseful
  <2>2. CASE VStep
    BY <2>2 DEF VStep, Sane, Mono, VogpStep, VogpDisc, VogpNewP, VogpPess
  <2>3. CASE AStep
    BY <2>3 DEF AStep, Sane, Mono, AuerStep, AuerDisc, AuerP1, AuerNewP
  <2>4. CASE UNCHANGED vars
    BY <2>4 DEF vars, Mono
  <2> QED BY <2>1, <2>2, <2>3, <2>4 DEF Next
<1> QED BY <1>1, SaneInvariant, PTL DEF Spec
(* ---- sampling (C07): a sequence accepted by IsTopQ never repeats a candidate, stays within the candidates, and its first element is a
   global arg-max; for any candidate set, rank function and batch size *)
THEOREM TopQDistinct ==
  ASSUME NEW chosen, NEW cand, NEW rank, NEW q, Len(chosen) \in Nat, IsTopQ(chosen, cand, rank, q)
  PROVE  /\ \A a, b \in 1..Len(chosen) : a < b => chosen[a] # chosen[b]
         /\ \A k \in 1..Len(chosen) : chosen[k] \in cand
         /\ Len(chosen) >= 1 => \A c \in cand : rank[c] <= rank[chosen[1]]
<1>1. \A k \in 1..Len(chosen) : /\ chosen[k] \in cand \ PrefixSet(chosen, k-1)
                                 /\ \A c \in cand \ PrefixSet(chosen, k-1) : rank[c] <= rank[chosen[k]]
  BY DEF IsTopQ
<1>2. \A a, b \in 1..Len(chosen) : a < b => chosen[a] # chosen[b]
  <2> SUFFICES ASSUME NEW a \in 1..Len(chosen), NEW b \in 1..Len(chosen), a < b PROVE chosen[a] # chosen[b]
    OBVIOUS
  <2>1. a \in 1..(b-1)
    OBVIOUS
  <2>2. chosen[a] \in PrefixSet(chosen, b-1)
    BY <2>1 DEF PrefixSet
  <2>3. chosen[b] \notin PrefixSet(chosen, b-1)
    BY <1>1
  <2> QED BY <2>2, <2>3
<1>3. \A k \in 1..Len(chosen) : chosen[k] \in cand
  BY <1>1
<1>4. Len(chosen) >= 1 => \A c \in cand : rank[c] <= rank[chosen[1]]
  <2> SUFFICES ASSUME Len(chosen) >= 1 PROVE \A c \in cand : rank[c] <= rank[chosen[1]]
    OBVIOUS
  <2>1. 1 \in 1..Len(chosen)
    OBVIOUS
  <2>2. PrefixSet(chosen, 1-1) = {}
    BY DEF PrefixSet
  <2> QED BY <1>1, <2>1, <2>2
<1> QED BY <1>2, <1>3, <1>4
=============================================================================

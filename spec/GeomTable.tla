----------------------------- MODULE GeomTable -----------------------------
(* Table of the rectangle predicates over ALL box pairs of a grid (C09, C10, C11).
   One TLC initial state per configuration; `-dump` writes the table that the
   harness replays into vopy.confidence_region.  Invariants are the theorems
   "definition = procedure" checked exhaustively on the same table.            *)
EXTENDS VOGeometry, TLC
CONSTANTS G, Cones, Slacks, Part     \* Cones: set of [W |-> rows, L |-> refinement (0 = skip definitional brute force)]
VARIABLES cfg, ans

Tri(W, lo, hi, t) == << FeasibleV(lo, hi, W, [n \in 1..Len(W) |-> t[n] - 1]),
                        FeasibleV(lo, hi, W, t),
                        FeasibleV(lo, hi, W, [n \in 1..Len(W) |-> t[n] + 1]) >>
Init ==
  /\ cfg \in [cone : Cones, r1 : Boxes2(G), r2 : Boxes2(G), s : Slacks]
  /\ LET W == cfg.cone.W  L == cfg.cone.L  r1 == cfg.r1  r2 == cfg.r2  s == cfg.s IN
     ans = CASE Part = "dom" ->
                  [ dom |-> << DomT(W, r1, r2, s, -1), Dom(W, r1, r2, s), DomT(W, r1, r2, s, 1) >>, domdef |-> DomDef(W, r1, r2, s) ]
            [] Part = "cov" ->
                  [ cov    |-> Tri(W, Sub(r2.lo, r1.hi), Sub(r2.hi, r1.lo), WT(W,s)),
                    covdef |-> IF L = 0 THEN Cov(W, r1, r2, s) ELSE CovDef(W, r1, r2, s, L) ]
            [] Part = "pdom" ->
                  [ pdom    |-> << PDomT(W, r1, r2, -1), PDom(W, r1, r2), PDomT(W, r1, r2, 1) >>,
                    pdomdef |-> IF L = 0 THEN PDom(W, r1, r2) ELSE PDomDef(W, r1, r2, L),
                    pproc   |-> PDomProc(W, r1, r2) ]
Next == UNCHANGED <<cfg, ans>>

DomThm      == Part = "dom" => ans.dom[2] = ans.domdef /\ (ans.dom[3] => ans.dom[2]) /\ (ans.dom[2] => ans.dom[1])                 \* vertex pairs decide the forall-forall
CovThm      == Part = "cov" => ans.cov[2] = ans.covdef               \* vertex-candidate LP = definition
CovMono     == Part = "cov" => (ans.cov[3] => ans.cov[2]) /\ (ans.cov[2] => ans.cov[1])
PDomThm     == Part = "pdom" => ans.pdom[2] = ans.pdomdef
PProcSound  == Part = "pdom" => (ans.pproc => ans.pdom[2])           \* C11 soundness, every cone
PProcCompl  == Part = "pdom" => ((Len(cfg.cone.W) = 2 /\ ans.pdom[2]) => ans.pproc)  \* C11 completeness, two-facet cones
=============================================================================

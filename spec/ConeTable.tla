----------------------------- MODULE ConeTable -----------------------------
(* C12: the order induced by a polyhedral cone is a preorder (reflexive, transitive, translation- and
   scale-invariant, antisymmetric iff the cone is pointed) - for EVERY integer cone matrix with entries
   in -E..E and K rows, on the lattice -G..G; plus the table  W -> set of lattice vectors inside,
   dumped for replay into OrderingCone.is_inside / PolyhedralConeOrder.dominates.
   Part "theta": the bundled 2-D theta-cone, tan(theta/2) = p/q.                                      *)
EXTENDS VOCone, TLC
CONSTANTS E, K, G, Part, PQ, FirstRows     \* FirstRows: the first row ranges over this subset of Rows (parallel split)
VARIABLES cfg, ans
L2   == Lattice2(G)
Rows == ((0-E)..E) \X ((0-E)..E)
Init == \/ /\ Part = "order"
           /\ cfg \in { f \in [1..K -> Rows] : f[1] \in FirstRows }
           /\ ans = { x \in L2 : InCone(cfg, x) }
        \/ /\ Part = "theta"
           /\ cfg \in PQ
           /\ ans = [in |-> { x \in L2 : Theta2DInside(cfg[1], cfg[2], x) },
                     bd |-> { x \in L2 : cfg[2] * Abs(x[2] - x[1]) = cfg[1] * (x[1] + x[2]) }]
Next == UNCHANGED <<cfg, ans>>

W == cfg
Small == Lattice2(1)
Reflexive    == Part = "order" => \A a \in L2 : Dominates(W, a, a)
Transitive   == Part = "order" => \A a, b, c \in Small : (Dominates(W, a, b) /\ Dominates(W, b, c)) => Dominates(W, a, c)
AddClosed    == Part = "order" => \A x, y \in L2 : (InCone(W, x) /\ InCone(W, y)) => InCone(W, Add(x, y))
TranslInv    == Part = "order" => \A a, b \in Small : \A t \in L2 : Dominates(W, Add(a,t), Add(b,t)) = Dominates(W, a, b)
ScaleInv     == Part = "order" => \A a, b \in L2 : \A k \in {2, 3} : Dominates(W, Scale(k,a), Scale(k,b)) = Dominates(W, a, b)
Antisym      == Part = "order" => ((\A a, b \in L2 : (Dominates(W, a, b) /\ Dominates(W, b, a)) => a = b) <=> PointedRank2(W))
PointedAgree == Part = "order" => (PointedDef(W, L2) <=> PointedRank2(W))
ThetaIsCone  == Part = "theta" => ans.in = { x \in L2 : InCone(Theta2DW(cfg[1], cfg[2]), x) }   \* within theta/2 of the diagonal <=> both facet inequalities
ThetaDiag    == Part = "theta" => (<<1,1>> \in ans.in /\ <<-1,-1>> \notin ans.in)
ThetaSym     == Part = "theta" => \A x \in L2 : (x \in ans.in) = (<<x[2], x[1]>> \in ans.in)
=============================================================================

---------------------------- MODULE MetricsTable ----------------------------
EXTENDS VOMetrics
CONSTANTS N, G, Cones, Eps2, Part, Lq
VARIABLES cfg, ans
Grid == (0..G) \X (0..G)
Seqs == UNION { [1..n -> Grid] : n \in 2..N }
LD   == Lattice2(4)
Perm3(S3) == { s \in [1..Cardinality(S3) -> S3] : \A a, b \in DOMAIN s : a # b => s[a] # s[b] }
Init ==
  \/ /\ Part = "gap"
     /\ cfg \in [W : Cones, V : Seqs]
     /\ ans = [ gap |-> LET A == AlphaVec(cfg.W) IN [i \in 1..Len(cfg.V) |-> GapSqA(cfg.W, A, cfg.V, i)],
                cov |-> [e \in Eps2 |-> { p \in (1..Len(cfg.V)) \X (1..Len(cfg.V)) : EpsCovered(cfg.W, cfg.V[p[1]], cfg.V[p[2]], e) }],
                d2  |-> [p \in (1..Len(cfg.V)) \X (1..Len(cfg.V)) |-> Dist2Poly(cfg.W, CoverA(cfg.W, cfg.V[p[1]], cfg.V[p[2]]), <<0,0>>)] ]
  \/ /\ Part = "f1"
     /\ cfg \in { [W |-> Wc, V |-> v, pred |-> pr] : Wc \in Cones, v \in Seqs, pr \in UNION { Perm3(Sx) : Sx \in SUBSET (1..N) } }
     /\ Len(cfg.V) = N
     /\ ans = [ true |-> ParetoDef(cfg.W, cfg.V),
                f1   |-> [e \in Eps2 |-> EpsF1(cfg.W, cfg.V, ParetoDef(cfg.W, cfg.V), cfg.pred, e)],
                f1true |-> [e \in Eps2 |-> EpsF1(cfg.W, cfg.V, ParetoDef(cfg.W, cfg.V), ParetoFast(cfg.W, cfg.V), e)],
                bd   |-> LET A == AlphaVec(cfg.W) IN [e \in Eps2 |->     \* some comparison of this configuration is exactly on its boundary
                            \/ \E k \in 1..Len(cfg.pred) : REq(GapSqA(cfg.W, A, cfg.V, cfg.pred[k]), e)
                            \/ \E i \in 1..N : \E k \in 1..Len(cfg.pred) : REq(Dist2Poly(cfg.W, CoverA(cfg.W, cfg.V[i], cfg.V[cfg.pred[k]]), <<0,0>>), e)] ]
  \/ /\ Part = "hv"
     /\ cfg \in { [W |-> Wc, V |-> v, Y |-> y] : Wc \in { c \in Cones : Len(c) = 2 }, v \in [1..N -> Grid], y \in [1..N -> Grid] }
     /\ ans = [ hvtrue |-> HV(cfg.W, cfg.V, SeqToSet(ParetoFast(cfg.W, cfg.V))),
                hvpred |-> HV(cfg.W, cfg.V, SeqToSet(ParetoFast(cfg.W, cfg.Y))),
                ptrue  |-> ParetoFast(cfg.W, cfg.V), ppred |-> ParetoFast(cfg.W, cfg.Y) ]
Next == UNCHANGED <<cfg, ans>>

GapThm == Part = "gap" => \A i \in 1..Len(cfg.V) :
            /\ GapZeroIffNotInteriorDominated(cfg.W, cfg.V, i)
            /\ \A j \in 1..Len(cfg.V) : MFeasible(cfg.W, cfg.V[i], cfg.V[j], SmallMSq(cfg.W, cfg.V[i], cfg.V[j]), LD)
CovThm == Part = "gap" => \A p \in (1..Len(cfg.V)) \X (1..Len(cfg.V)) :
            /\ DistMinimal(cfg.W, cfg.V[p[1]], cfg.V[p[2]], LD, Lq)
            /\ \A e \in Eps2 : EpsCoveredWitness(cfg.W, cfg.V[p[1]], cfg.V[p[2]], e, LD, Lq) => p \in ans.cov[e]
CovMono == Part = "gap" => \A e1, e2 \in Eps2 : RLe(e1, e2) => ans.cov[e1] \subseteq ans.cov[e2]
CovRefl == Part = "gap" => \A e \in Eps2 : \A i \in 1..Len(cfg.V) : <<i,i>> \in ans.cov[e]
F1Range == Part = "f1" => \A e \in Eps2 : ans.f1[e][2] > 0 /\ ans.f1[e][1] >= 0 /\ ans.f1[e][1] <= ans.f1[e][2]
F1True  == Part = "f1" => \A e \in Eps2 : ans.f1true[e][1] = ans.f1true[e][2]
F1Mono  == Part = "f1" => \A e1, e2 \in Eps2 : RLe(e1, e2) => RLe(ans.f1[e1], ans.f1[e2])
F1Perm  == Part = "f1" => \A e \in Eps2 : LET n == Len(cfg.pred)  rev == [k \in 1..n |-> cfg.pred[n + 1 - k]] IN EpsF1(cfg.W, cfg.V, ans.true, rev, e) = ans.f1[e]
HVThm   == Part = "hv" => ans.hvtrue >= ans.hvpred
=============================================================================

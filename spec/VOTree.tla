-------------------------------- MODULE VOTree --------------------------------
(* VOGP_AD over an adaptively discretised domain with an ABSTRACT environment: every round any subset of S may be discarded,
   any subset may be declared Pareto once the gate is open, and the sampled node is either refined (if below the maximum
   depth) or observed.  Invariants: C18 (tiling, leaves, refinement swap, declared only at maximum depth).            *)
EXTENDS VOTreeOps
CONSTANTS Dim, MaxDepth, MaxNodes
VARIABLES cells, depth, S, P, gone, gate, refined
vars == <<cells, depth, S, P, gone, gate, refined>>
\* cells, depth : sequences indexed by node id ; gone : discarded leaves ; refined : inner nodes ; gate : enable_epsilon_covering

Init == /\ cells = << Root(Dim, MaxDepth - 1) >> /\ depth = <<1>> /\ S = {1} /\ P = {} /\ gone = {} /\ gate = FALSE /\ refined = {}
Discard == \E Dd \in SUBSET S : Dd # {} /\ S' = S \ Dd /\ gone' = gone \cup Dd /\ UNCHANGED <<cells, depth, P, gate, refined>>
\* epsiloncovering: the gate opens (and latches) when every node of S is at the maximum depth; only then may nodes enter P
Cover == /\ LET g == gate \/ (\A i \in S : depth[i] = MaxDepth) IN
            /\ gate' = g
            /\ \E NP \in SUBSET S : (~g => NP = {}) /\ S' = S \ NP /\ P' = P \cup NP
         /\ UNCHANGED <<cells, depth, gone, refined>>
\* evaluate_refine: the arg-max node of S u P is refined when below the maximum depth (should_refine may also say no), else observed
Refine == \E i \in S \cup P : /\ depth[i] < MaxDepth /\ Len(cells) + Pow2(Dim) <= MaxNodes
             /\ LET kids == Children(cells[i])  n == Len(cells)  ids == { n + k : k \in 1..Pow2(Dim) } IN
                /\ cells' = cells \o kids
                /\ depth' = depth \o [k \in 1..Pow2(Dim) |-> depth[i] + 1]
                /\ IF i \in S THEN S' = (S \ {i}) \cup ids /\ P' = P ELSE P' = (P \ {i}) \cup ids /\ S' = S
                /\ refined' = refined \cup {i}
             /\ UNCHANGED <<gone, gate>>
Next == Discard \/ Cover \/ Refine
\* single-node variants (same reachable states; bounded branching for tlc -simulate)
DiscardOne == \E i \in S : S' = S \ {i} /\ gone' = gone \cup {i} /\ UNCHANGED <<cells, depth, P, gate, refined>>
CoverOne == /\ LET g == gate \/ (\A i \in S : depth[i] = MaxDepth) IN
               /\ gate' = g /\ \E NP \in {{}} \cup { {i} : i \in S } : (~g => NP = {}) /\ S' = S \ NP /\ P' = P \cup NP
            /\ UNCHANGED <<cells, depth, gone, refined>>
NextSim == DiscardOne \/ CoverOne \/ Refine \/ Refine \/ Refine
Spec == Init /\ [][Next]_vars

Leaves        == S \cup P \cup gone
TypeOK        == S \cap P = {} /\ S \cap gone = {} /\ P \cap gone = {} /\ refined \cap Leaves = {} /\ Leaves \cup refined = 1..Len(cells)
Tiling        == Tiles(cells, Leaves, Dim, MaxDepth - 1)                       \* active + discarded leaves tile the unit cube
LeafDisjoint  == \A i, j \in S \cup P : i # j => Disjoint(cells[i], cells[j])
DepthBound    == \A i \in 1..Len(cells) : depth[i] >= 1 /\ depth[i] <= MaxDepth
DeclaredAtMax == \A i \in P : depth[i] = MaxDepth
SideMatchesDepth == \A i \in 1..Len(cells) : \A k \in 1..Dim : (cells[i][k][2] - cells[i][k][1]) * Pow2(depth[i] - 1) = Pow2(MaxDepth - 1)
GateLatch     == [][gate => gate']_vars
=============================================================================

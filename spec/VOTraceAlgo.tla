---------------------------- MODULE VOTraceAlgo ----------------------------
(* Trace specification: validates recorded executions of the real algorithm classes, one event per
   run_one_step(), against the step operators of VOAlgo.  TOTAL: every step of every trace gets a
   verdict; each step is judged from its own logged pre-state, so one rejection does not hide the rest.
   Input: ndjson file (env TRACE_FILE), one behaviour per line - see harness/algotrace.py.            *)
EXTENDS VOAlgo, Json, IOUtils
Traces == ndJsonDeserialize(IOEnv.TRACE_FILE)
VARIABLES tid, l
vars == <<tid, l>>

ToSet(s)  == { s[k] : k \in 1..Len(s) }
Fam(a)    == CASE a \in {"PaVeBa","PaVeBaGP","PaVeBaPartialGP"} -> "paveba"
               [] a \in {"VOGP","EpsilonPAL","VOGP_AD"} -> "vogp"
               [] a = "Auer" -> "auer"
               [] OTHER -> "flat"
Guard(T, st) == CASE T.alg = "NaiveElimination" -> st.round = T.L
                  [] T.alg = "DecoupledGP" -> (T.budget >= 0 /\ st.cost >= T.budget)
                  [] T.alg = "PaVeBaPartialGP" -> (st.S = <<>> \/ (T.budget >= 0 /\ st.cost >= T.budget))
                  [] OTHER -> st.S = <<>>
SetsOf(st) == [S |-> ToSet(st.S), P |-> ToSet(st.P), U |-> ToSet(st.U)]

\* one candidate resolution of the non-robust relations: definite pairs plus a subset of the ambiguous ones
Resolutions(e) == { [a |-> ToSet(e.rel.a) \cup xa, b |-> ToSet(e.rel.b) \cup xb, c |-> ToSet(e.rel.c) \cup xc] :
                      xa \in SUBSET ToSet(e.amb.a), xb \in SUBSET ToSet(e.amb.b), xc \in SUBSET ToSet(e.amb.c) }
StepOp(T, pre, r, gate) ==
   CASE Fam(T.alg) = "paveba" -> PavebaStep(pre.S, pre.P, pre.U, r.a, r.b)
     [] Fam(T.alg) = "vogp"   -> VogpStep(pre.S, pre.P, r.c, r.a, r.b, gate)
     [] OTHER                 -> AuerStep(pre.S, pre.P, r.a, r.b, r.c)

\* the set clauses under resolution r : <<disc, newp, useful>>
SetClauses(T, e, r) ==
   LET pre == SetsOf(e.pre)  post == SetsOf(e.post)  x == StepOp(T, pre, r, e.gate) IN
   << (pre.S \ (post.S \cup post.P)) = x.disc,            \* eliminated exactly on a certificate        (C02)
      (post.P \ pre.P) = x.np /\ post.S = x.S,            \* entered P exactly when nothing can cover   (C03)
      post.U = x.U >>                                     \* useful set                                   (C03)

RankOf(e) == [k \in 1..Len(e.acq.cand) |-> e.acq.rank[k]]
CandSet(e) == ToSet(e.acq.cand)
RankFn(e) == [c \in CandSet(e) |-> LET k == CHOOSE k \in 1..Len(e.acq.cand) : e.acq.cand[k] = c IN e.acq.rank[k]]
Designs(req) == [k \in 1..Len(req) |-> req[k][1]]

Sampling(T, e) ==
   LET pre == SetsOf(e.pre)  post == SetsOf(e.post)
       act == CASE Fam(T.alg) = "paveba" -> pre.S \cup pre.U
                [] Fam(T.alg) = "vogp"   -> post.S \cup post.P
                [] T.alg = "Auer"        -> pre.S
                [] OTHER                 -> 1..T.n  IN
   CASE T.alg \in {"PaVeBa", "Auer"} ->
          << \A k \in 1..Len(e.req) : e.req[k][1] \in act /\ e.req[k][2] = 0, AllOnce(Designs(e.req), act), TRUE >>
     [] T.alg = "NaiveElimination" ->
          << TRUE, Designs(e.req) = [k \in 1..T.n |-> k], TRUE >>
     [] T.alg \in {"PaVeBaGP", "VOGP", "EpsilonPAL"} ->
          IF Fam(T.alg) = "vogp" /\ post.S = {} THEN << TRUE, e.req = <<>>, TRUE >>
          ELSE << \A k \in 1..Len(e.req) : e.req[k][1] \in act /\ e.req[k][2] = 0,
                  IF e.acqchk THEN CandSet(e) = { <<d, 0>> : d \in act } /\ IsTopQ(e.req, CandSet(e), RankFn(e), T.batch)
                  ELSE Len(e.req) = Min2(T.batch, Cardinality(act)),
                  \A a, b \in 1..Len(e.req) : a < b => e.req[a] # e.req[b] >>
     [] OTHER ->   \* PaVeBaPartialGP, DecoupledGP : (design, objective) pairs
          << \A k \in 1..Len(e.req) : e.req[k][1] \in act /\ e.req[k][2] \in 1..T.m,
             IF e.acqchk THEN CandSet(e) = act \X (1..T.m) /\ IsTopQ(e.req, CandSet(e), RankFn(e), T.batch)
             ELSE Len(e.req) = Min2(T.batch, Cardinality(act) * T.m),
             \A a, b \in 1..Len(e.req) : a < b => e.req[a] # e.req[b] >>

CostOf(T, req) == IF T.costs = <<>> THEN 0
                  ELSE LET RECURSIVE Sum(_)
                           Sum(k) == IF k = 0 THEN 0 ELSE T.costs[req[k][2]] + Sum(k-1) IN Sum(Len(req))

\* clause record for step e of trace T
Clauses(T, e, gonePrev) ==
   LET pre == SetsOf(e.pre)  post == SetsOf(e.post) IN
   IF e.exc # 0 THEN [nocrash |-> FALSE]
   ELSE IF Guard(T, e.pre) THEN       \* step after completion: nothing changes, nothing is sampled, TRUE is returned
        [nocrash |-> TRUE, idle |-> (e.post = e.pre /\ e.req = <<>> /\ e.ret)]
   ELSE LET res  == Resolutions(e)
            good == { r \in res : LET c == SetClauses(T, e, r) IN c[1] /\ c[2] /\ c[3] }
            base == SetClauses(T, e, [a |-> ToSet(e.rel.a), b |-> ToSet(e.rel.b), c |-> ToSet(e.rel.c)])
            sc   == IF Fam(T.alg) = "flat" \/ e.skipsets THEN <<TRUE, TRUE, TRUE>> ELSE IF good # {} THEN <<TRUE, TRUE, TRUE>> ELSE base
            sm   == Sampling(T, e) IN
        [ nocrash  |-> TRUE,
          disc     |-> sc[1], newp |-> sc[2], useful |-> sc[3],
          disjoint |-> post.S \cap post.P = {},
          uinp     |-> post.U \subseteq post.P,
          mono     |-> post.S \subseteq pre.S /\ pre.P \subseteq post.P,
          noreturn |-> post.S \cap gonePrev = {},
          round    |-> e.post.round = e.pre.round + 1,
          samples  |-> e.post.samples = e.pre.samples + Len(e.req) /\ e.rows = Len(e.req),
          cost     |-> e.post.cost = e.pre.cost + CostOf(T, e.req),
          ret      |-> e.ret = Guard(T, e.post),
          sactive  |-> sm[1], sargmax |-> sm[2], sdistinct |-> sm[3],
          pess     |-> IF e.pess.has        \* the pessimistic Pareto set handed to discarding() (C11, last sentence)
                       THEN ToSet(e.pess.set) = VogpPess(pre.S, pre.P, ToSet(e.rel.c) \cup ToSet(e.pess.cx))
                       ELSE TRUE,
          modeled  |-> e.modeled,          \* (scripted runs) every design active at modelling time displays this round's posterior
          flatp    |-> IF Fam(T.alg) # "flat" THEN TRUE            \* NaiveElimination / DecoupledGP: reported P = exact Pareto set of the current mean estimates
                       ELSE \E X \in SUBSET ToSet(e.flat.amb) :
                              { i \in 1..T.n : ~ \E j \in 1..T.n : <<j,i>> \in (ToSet(e.flat.sd) \cup X) } = ToSet(e.flat.P),
          data     |-> ToSet(e.data.gained) = ToSet(e.data.returned) /\ Len(e.data.gained) = Len(e.data.returned) /\ e.data.synced ]

\* at termination of a run whose displayed regions always contained the (scripted) truth: the accuracy statements of C01 / C05,
\* evaluated on relations of the TRUTH logged by the harness (exact integer arithmetic):
\*   wd <<j,i>> : mu_j weakly dominates mu_i            ex <<j,i>> : mu_j exceeds mu_i by more than eps in every facet (gap_i > eps)
\*   sd <<j,i>> : mu_j + slack dominates mu_i           mo <<j,i>> : mu_j dominates mu_i by more than the slack
Accurate(T) ==
   LET F == T.final  Pf == ToSet(F.P)  Dn == 1..T.n IN
   IF ~F.judge THEN TRUE
   ELSE IF Fam(T.alg) = "vogp"
        THEN /\ \A i \in Dn : (~ \E j \in Dn \ {i} : <<j,i>> \in ToSet(F.sd)) => i \in Pf
             /\ \A i \in Pf : \A j \in Pf \ {i} : <<j,i>> \notin ToSet(F.mo)
        ELSE /\ \A i \in Dn \ Pf : \E j \in Pf : <<j,i>> \in ToSet(F.wd)
             /\ \A i \in Pf : \A j \in Dn \ {i} : <<j,i>> \notin ToSet(F.ex)
AllTrue(c) == \A k \in DOMAIN c : c[k]
RECURSIVE GoneUpTo(_, _)
GoneUpTo(T, k) == IF k = 0 THEN {} ELSE GoneUpTo(T, k-1) \cup (ToSet(T.steps[k].pre.S) \ ToSet(T.steps[k].post.S))

Init == tid \in 1..Len(Traces) /\ l = 1
Next == /\ l <= Len(Traces[tid].steps) + 1
        /\ LET T == Traces[tid] IN
           IF l = Len(T.steps) + 1
           THEN /\ (IF Accurate(T) THEN TRUE ELSE PrintT(<<"REJECT", T.tid, Len(T.steps), [accurate |-> FALSE]>>))
                /\ PrintT(<<"DONE", T.tid, Len(T.steps)>>) /\ l' = l + 1 /\ UNCHANGED tid
           ELSE LET c == Clauses(T, T.steps[l], IF T.alg = "VOGP_AD" THEN {} ELSE GoneUpTo(T, l-1)) IN
                /\ IF AllTrue(c) THEN TRUE ELSE PrintT(<<"REJECT", T.tid, l, c>>)
                /\ l' = l + 1 /\ UNCHANGED tid
Spec == Init /\ [][Next]_vars
=============================================================================

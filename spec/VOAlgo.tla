------------------------------- MODULE VOAlgo -------------------------------
(* The run state machine of VOPy's algorithms (vopy/algorithms/*.py), written to be bound:
   one operator per phase method of the code, composed per run_one_step().

   Geometry enters only through RELATIONS over design ids, represented as sets of pairs:
     dom   <<i,j>> : region j dominates every point of region i          (confidence_region_is_dominated(order, R_i, R_j, slack))
     cov   <<i,j>> : some point of region j dominates some point of region i by the slack   (..._is_covered(order, R_i, R_j, slack))
     pdom  <<j,i>> : every point of region j dominates some point of region i               (..._check_dominates(order, R_j, R_i))
     Auer  gt <<i,j>> : m(i,j) >  width_i + width_j  in every objective
           mc <<i,j>> : M(i,j) <  width_i + width_j  in every objective
           nd <<j,i>> : M(j,i) <= width_i + width_j  in every objective
   These are the regions DISPLAYED by the design space when the decision is taken; stale regions of
   inactive members of P are still read (useful_updating), hence relations range over all ids.   *)
EXTENDS VOArith, TLC

----------------------------------------------------------------------------
(* PaVeBa, PaVeBaGP, PaVeBaPartialGP :  evaluating; modeling; discarding; pareto_updating; useful_updating *)
PavebaDisc(S, U, dom)      == { i \in S : \E j \in (S \cup U) \ {i} : <<i,j>> \in dom }
PavebaNewP(S1, U, cov)     == { i \in S1 : ~ \E j \in (S1 \cup U) \ {i} : <<i,j>> \in cov }    \* U is still last round's
PavebaUseful(S2, P2, cov)  == { p \in P2 : \E i \in S2 : <<i,p>> \in cov }                     \* over ALL of P2
PavebaStep(S, P, U, dom, cov) ==
  LET D  == PavebaDisc(S, U, dom)      S1 == S \ D
      NP == PavebaNewP(S1, U, cov)     S2 == S1 \ NP    P2 == P \cup NP
  IN  [S |-> S2, P |-> P2, U |-> PavebaUseful(S2, P2, cov), disc |-> D, np |-> NP]

(* VOGP, EpsilonPAL, VOGP_AD :  modeling; discarding (pessimistic set first); epsiloncovering; evaluating *)
VogpPess(S, P, pdom)       == LET W0 == S \cup P IN { i \in W0 : ~ \E j \in W0 \ {i} : <<j,i>> \in pdom }
VogpDisc(S, P, pdom, dom)  == LET Pe == VogpPess(S, P, pdom) IN { i \in S \ Pe : \E j \in Pe : <<i,j>> \in dom }
VogpNewP(S1, P, cov)       == { i \in S1 : ~ \E j \in (S1 \cup P) \ {i} : <<i,j>> \in cov }     \* P is still last round's
VogpStep(S, P, pdom, dom, cov, coverEnabled) ==
  LET D  == VogpDisc(S, P, pdom, dom)   S1 == S \ D
      NP == IF coverEnabled THEN VogpNewP(S1, P, cov) ELSE {}
  IN  [S |-> S1 \ NP, P |-> P \cup NP, U |-> {}, disc |-> D, np |-> NP]

(* Auer :  evaluating; modeling; discarding; pareto_updating (two stages) *)
AuerDisc(S, gt)            == { i \in S : \E j \in S \ {i} : <<i,j>> \in gt }
AuerP1(S1, mc)             == { i \in S1 : ~ \E j \in S1 \ {i} : <<i,j>> \in mc }
AuerNewP(S1, P1, nd)       == { i \in P1 : ~ \E j \in S1 \ P1 : <<j,i>> \in nd }
AuerStep(S, P, gt, mc, nd) ==
  LET D == AuerDisc(S, gt)  S1 == S \ D   P1 == AuerP1(S1, mc)   NP == AuerNewP(S1, P1, nd)
  IN  [S |-> S1 \ NP, P |-> P \cup NP, U |-> {}, disc |-> D, np |-> NP, p1 |-> P1]

----------------------------------------------------------------------------
(* Sampling (vopy/acquisition/acquisition.py): the remove-chosen-row loop picks, q times, an arg-max of the
   remaining candidates.  rank : candidate -> Nat, larger is better, ties share a rank.                    *)
PrefixSet(seq, k) == { seq[x] : x \in 1..k }
IsTopQ(chosen, cand, rank, q) ==
  /\ Len(chosen) = Min2(q, Cardinality(cand))
  /\ \A k \in 1..Len(chosen) :
        LET rest == cand \ PrefixSet(chosen, k-1) IN
        /\ chosen[k] \in rest
        /\ \A c \in rest : rank[c] <= rank[chosen[k]]
AllOnce(chosen, cand) == Len(chosen) = Cardinality(cand) /\ PrefixSet(chosen, Len(chosen)) = cand
=============================================================================

#!/bin/sh
# usage: tools/keepseed.sh <tag>   -- confirm an agent's change in its worktree /tmp/wt/<tag> and store it as seeded/<tag>
set -u
T=$1; WT=/tmp/wt/$T; D=/verif/seeded/$T
[ -d "$WT" ] || { echo no worktree; exit 2; }
mkdir -p "$D"
git -C "$WT" diff -- vopy > "$D/patch.diff"
[ -s "$D/patch.diff" ] || { echo "empty diff"; exit 2; }
cp "$WT/demo_seed.py" "$D/demo_seed.py"
cd "$WT" && PYTHONPATH="$WT" timeout 600 /venv/bin/python -W ignore demo_seed.py > "$D/demo_with_change.log" 2>&1; rc_with=$?
git -C "$WT" stash -q
cd "$WT" && PYTHONPATH="$WT" timeout 600 /venv/bin/python -W ignore demo_seed.py > "$D/demo_without_change.log" 2>&1; rc_without=$?
git -C "$WT" stash pop -q
echo "$T demo: with change exit=$rc_with ; without change exit=$rc_without"
echo "{\"rc_with\": $rc_with, \"rc_without\": $rc_without}" > "$D/confirm.json"

#!/bin/sh
# usage: tools/keepseed.sh <tag>   -- confirm an agent's change in its worktree /tmp/wt/<tag> and store it as seeded/<tag>
# (never uses git stash: the stash is shared by all worktrees of a repository)
set -u
T=$1; WT=/tmp/wt/$T; D=/verif/seeded/$T
[ -d "$WT" ] || { echo no worktree; exit 2; }
mkdir -p "$D"
git -C "$WT" diff -- vopy > "$D/patch.diff"
[ -s "$D/patch.diff" ] || { echo "empty diff"; exit 2; }
cp "$WT/demo_seed.py" "$D/demo_seed.py"
export OMP_NUM_THREADS=1 MKL_NUM_THREADS=1
cd "$WT" && PYTHONPATH="$WT" timeout 900 /venv/bin/python -W ignore demo_seed.py > "$D/demo_with_change.log" 2>&1; rc_with=$?
git -C "$WT" apply -R "$D/patch.diff" || { echo "cannot reverse"; exit 2; }
cd "$WT" && PYTHONPATH="$WT" timeout 900 /venv/bin/python -W ignore demo_seed.py > "$D/demo_without_change.log" 2>&1; rc_without=$?
git -C "$WT" apply "$D/patch.diff"
echo "$T demo: with change exit=$rc_with ; without change exit=$rc_without ; files: $(git -C "$WT" diff --stat -- vopy | tail -1)"
echo "{\"rc_with\": $rc_with, \"rc_without\": $rc_without}" > "$D/confirm.json"

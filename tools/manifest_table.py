NOTES = ("Model-based verification with explicit TLA+ specifications (spec/*.tla) checked by TLC and bound to /repo by "
         "table replay, behaviour replay and trace validation. See DESIGN.md.")
NOT_APPLICABLE = [
 {"property_id": "C04", "reason": "Gaussian-tail / infinite-series inequality over reals: no discrete or exact-rational core a TLA+ state machine can decide (DESIGN 6)"},
 {"property_id": "C08", "reason": "probability over Gaussian noise realisations (closed form only via the normal CDF); the deterministic second sentence is exercised under C06/C13 (DESIGN 6)"},
]
PENDING = ["C14","C15","C17","C18","C19","C20"]
for p in PENDING:
    NOT_APPLICABLE.append({"property_id": p, "reason": "check under construction in this round (planned in DESIGN 5); not yet claimed"})

add("C09", "TLC proves on an exhaustive lattice table that the vertex-pair (rectangles, 2-D general cones and 3-D orthant) and support-function (ellipsoids/balls) procedures equal the forall-forall definition; every table row is then replayed into vopy.confidence_region.is_dominated at dyadic/decimal scales with scalar and vector slacks (exact incl. boundary for rectangles, robust rows for ellipsoids).",
    "Bounds: boxes on a 0..G grid (G=2 quick, 3 thorough), 5-8 integer cones incl. 3-facet and Pythagorean, ellipsoid shapes from a fixed integer family; general-cone geometry is 2-D. Trusted: TLC, the TLA+ value parser.",
    "TLC exhaustive table (definition = procedure) + table replay into code", "DESIGN 5 C09")
add("C10", "TLC proves on the lattice that exact vertex-candidate LP feasibility (rectangles) / nearest-point rule (balls) equal the exists-exists definition, ellipsoids three-valued (lattice witness / separating functional / boundary); every robust row is replayed into vopy.confidence_region.is_covered at several scales and slack forms.",
    "Only rows whose answer is unchanged by +-1 lattice unit of slack are compared (solver tolerance); same bounds as C09.",
    "TLC exhaustive table (definition = procedure) + table replay into code", "DESIGN 5 C10")
add("C11", "TLC proves that the procedure the code runs (vertex test + segment/hyper-plane crossings on W-images) is sound w.r.t. the forall-exists definition for every cone and complete for two-facet cones, on every ordered pair of lattice boxes; every row is replayed into check_dominates (soundness all cones, completeness K=2 with one-unit margin, equality with the procedure on robust exact rows).",
    "Bounds as C09; completeness only claimed for K=m=2 as the property states.",
    "TLC exhaustive table (procedure sound/complete vs definition) + table replay into code", "DESIGN 5 C11")

_tr = ("Trusted: TLC, the TLA+ value parser, the projection functions of harness/algotrace.py; relations of float regions come from the reference "
       "evaluator (bound to TLC tables in C09-C11) with tolerance 1e-6 x scale, non-robust pairs resolved existentially. Abstract model: N=3 designs (4 in thorough).")
add("C02", "TLC explores the abstract run model (all dom/cov/pdom and Auer relations over 3 designs, every reachable S,P,U) and every step of recorded executions of the real classes - GP runs and lattice replays with scripted posteriors (identical, touching, nested regions; acute/obtuse/3-facet cones) - is validated by the trace specification: the designs that left S without entering P are exactly the certificate set computed from the displayed regions.",
    _tr, "TLC abstract run model + trace validation of real and scripted-posterior runs (clause disc)", "DESIGN 5 C02")
add("C03", "Same machinery, clauses newp/useful: designs enter P exactly when no active displayed region can eps-cover them, U is exactly the members of P that can still cover a candidate, Auer's two-stage rule with each design's own width (scripted per-design widths and heteroscedastic noise).",
    _tr, "TLC abstract run model + trace validation of real and scripted-posterior runs (clauses newp, useful)", "DESIGN 5 C03")
add("C06", "TLC checks the run invariants (disjointness, U in P, monotone S/P, never-back, completion iff guard, idle steps fixed, accounting) on the abstract model of all algorithms incl. budgets and batches; the driver matrix (nine algorithms x orders incl. K != m x confidence types x batch > active set x budgets x fixed rounds) is executed for real and every step, incl. steps after completion, is validated; an exception is an event no action matches.",
    _tr + " VOGP_AD is driven by the C18 check.", "TLC abstract run model + trace validation over a configuration matrix (crash/accounting/monotonicity clauses)", "DESIGN 5 C06")
add("C07", "The remove-chosen-row arg-max loop is specified as IsTopQ; every evaluation of every driven run is validated: requested designs are active, form an arg-max sequence of the acquisition values recomputed through public calls on the pre-sampling state (ties share a rank), are distinct, and exactly the returned observations (ids by exact float identity) with their designs/objective indices are what the model gained, and the wrapped GP is conditioned on them.",
    _tr + " GP variance near-ties within 1e-5 relative share a rank; Thompson acquisition (DecoupledGP) argmax is not judged.", "TLC IsTopQ operator + trace validation of every evaluation (clauses sactive, sargmax, sdistinct, data)", "DESIGN 5 C07")

add("C12", "TLC proves, for every integer cone matrix with entries in -2..2 (2 rows; 3 rows with entries -1..1 in quick, -2..2 in thorough) on the lattice -2..2, that the induced relation is reflexive, transitive, translation/scale invariant and antisymmetric iff the cone is pointed, and that 'within theta/2 of the diagonal' equals the two integer facet inequalities of the theta-cone; the dumped membership table is replayed into is_inside (single, batched, list) and dominates; bundled cones (orthant, theta 19-161 degrees, 3-D acute/right/obtuse, ice-cream K in {3,4,6} by Gram matrix and axis angle) are compared with the specification's rational geometry.",
    "Exact geometry on integer lattices; theta membership compared on non-boundary lattice directions; ice-cream tangency decided for K in {3,4,6} only.",
    "TLC exhaustive cone tables + table replay into code", "DESIGN 5 C12")
add("C13", "The mask-and-compact loop of get_pareto_set is model-checked as a state machine for every sequence of <= 4 (thorough 5) vectors on a 3x3 lattice and 5-7 cones (3-facet and non-pointed included): sound, covering, one representative per value, valid/distinct/increasing indices, loop invariants and termination, plus the naive routine's theorem; the dumped table is replayed into both routines (identical index arrays), and random inputs of up to 300 points are compared with the definition.",
    "Lattice 3x3, N <= 4/5 exhaustive; random larger inputs use the reference evaluator's ParetoDef (bound to the TLC table on every run).",
    "TLC model checking of the loop as a state machine + exhaustive table replay", "DESIGN 5 C13")

add("C16", "TLC explores the EmpiricalMeanVarModel state machine (add_sample with every index sequence incl. repeats and out-of-range, update, clear) and checks that predictions change only at update() and to exactly the held data, order-independence of the statistics and non-negative variances; behaviours generated by tlc -simulate with larger constants are replayed operation by operation into the real class with list/tuple/array/set index containers and shuffled queries, comparing predict() with the exact rational statistics of the specification.",
    "Values from small integer sets (floats exact), 2-4 designs, histories up to 16 operations; negative indices not driven.",
    "TLC model checking of the model state machine + simulate-behaviour replay into code", "DESIGN 5 C16")

_sf = ("Lattice geometry: N <= 3 designs, truth grid 3x3 / 4x4 with pitch 2 (robust = not exactly on a boundary), 2 objectives, cones orthant / acute / obtuse / Pythagorean / 3-facet; "
       "the confidence schedule is overridden to 1 in replays (C04 is not claimed); slack constants of the model are compared with what the algorithm object builds. "
       "Known findings (known_findings.json) are matched by instantiation signature.")
add("C01", "TLC model-checks VOSafety - a hidden truth, an adversarial environment displaying ANY valid region (boxes, balls of a common radius, per-design rectangles for Auer) per active design per round, the round being VOAlgo's step operator on VOGeometry's relations - to termination for six instantiations mirroring the slacks the code passes; invariant: returned P eps-accurate. Behaviours from tlc -simulate and, for every spec mutant of the decision rule, TLC's shortest behaviour distinguishing mutant from rule, are replayed step by step into the real classes (scripted posterior); model-level counterexamples count only when the real class reproduces the inaccurate output.",
    _sf, "TLC exhaustive model checking of the accuracy theorem + simulate / mutant-directed behaviour replay into code", "DESIGN 5 C01")
add("C05", "Same machinery for VOGP (orthant, acute, obtuse, 3-facet cones; slack k*z*) and eps-PAL (scalar eps, incl. eps = 0): every eps-isolated design is in P and P is internally non-eps-dominated at termination, for every truth and every valid box history on the lattice; simulate and spec-mutant-distinguishing behaviours replayed into the real VOGP / EpsilonPAL classes.",
    _sf, "TLC exhaustive model checking of the accuracy theorem + simulate / mutant-directed behaviour replay into code", "DESIGN 5 C05")

NOTES = ("Model-based verification with explicit TLA+ specifications (spec/*.tla) checked by TLC and bound to /repo by "
         "table replay, behaviour replay and trace validation. See DESIGN.md.")
NOT_APPLICABLE = [
 {"property_id": "C04", "reason": "Gaussian-tail / infinite-series inequality over reals: no discrete or exact-rational core a TLA+ state machine can decide (DESIGN 6)"},
 {"property_id": "C08", "reason": "probability over Gaussian noise realisations (closed form only via the normal CDF); the deterministic second sentence is exercised under C06/C13 (DESIGN 6)"},
]
PENDING = ["C01","C02","C03","C05","C06","C07","C12","C13","C14","C15","C16","C17","C18","C19","C20"]
for p in PENDING:
    NOT_APPLICABLE.append({"property_id": p, "reason": "check under construction in this round (planned in DESIGN 5); not yet claimed"})

add("C09", "TLC proves on an exhaustive lattice table that the vertex-pair (rectangles, 2-D general cones and 3-D orthant) and support-function (ellipsoids/balls) procedures equal the forall-forall definition; every table row is then replayed into vopy.confidence_region.is_dominated at dyadic/decimal scales with scalar and vector slacks (exact incl. boundary for rectangles, robust rows for ellipsoids).",
    "Bounds: boxes on a 0..G grid (G=2 quick, 3 thorough), 5-8 integer cones incl. 3-facet and Pythagorean, ellipsoid shapes from a fixed integer family; general-cone geometry is 2-D. Trusted: TLC, the TLA+ value parser.",
    "TLC exhaustive table (definition = procedure) + table replay into code", "DESIGN 5 C09")
add("C10", "TLC proves on the lattice that exact vertex-candidate LP feasibility (rectangles) / nearest-point rule (balls) equal the exists-exists definition, ellipsoids three-valued (lattice witness / separating functional / boundary); every robust row is replayed into vopy.confidence_region.is_covered at several scales and slack forms.",
    "Only rows whose answer is unchanged by +-1 lattice unit of slack are compared (solver tolerance); same bounds as C09.",
    "TLC exhaustive table (definition = procedure) + table replay into code", "DESIGN 5 C10")
add("C11", "TLC proves that the procedure the code runs (vertex test + segment/hyper-plane crossings on W-images) is sound w.r.t. the forall-exists definition for every cone and complete for two-facet cones, on every ordered pair of lattice boxes; every row is replayed into check_dominates (soundness all cones, completeness K=2 with one-unit margin, equality with the procedure on robust exact rows).",
    "Bounds as C09; completeness only claimed for K=m=2 as the property states.",
    "TLC exhaustive table (procedure sound/complete vs definition) + table replay into code", "DESIGN 5 C11")

#!/usr/bin/env python3
"""Writes /verif/MANIFEST.json from the table below (single source of truth for the interface)."""
import json, os
ROOT = os.path.dirname(os.path.dirname(os.path.abspath(__file__)))
BASELINE = "cd /repo && /venv/bin/python -m pytest -ra -q -p no:cacheprovider --timeout=900 --continue-on-collection-errors"
CHECKS = {}
def add(pid, text, note, technique, ref):
    CHECKS[pid] = dict(text=text, note=note, technique=technique, ref=ref)

exec(open(os.path.join(ROOT, "tools", "manifest_table.py")).read())

man = {
 "version": 1,
 "setup_cmd": "./setup.sh",
 "hooks": {"guard": "VOPY_VERIF", "enable": "no in-repo hooks are needed: observation goes through public attributes and seams (DESIGN 3); the guard name is reserved",
           "baseline_off_cmd": BASELINE, "source_commits": [], "add_only": True},
 "engines": [{"name": "tlc", "path": "/opt/veriftools/tla/tla2tools.jar", "serves_properties": sorted(CHECKS),
              "kind_free_text": "explicit-state model checker for the TLA+ modules in /verif/spec; tables via -dump, behaviours via -simulate, trace validation via Json/IOUtils"},
             {"name": "tlapm", "path": "/opt/veriftools/tlapm/bin/tlapm", "serves_properties": ["C01", "C05", "C06"],
              "kind_free_text": "TLA+ proof system: unbounded theorems about the same specification operators (spec/proofs/VOAlgoProofs.tla: set-level run invariants, TopQ lemmas; spec/proofs/VOAccuracyProofs.tla: relation-level accuracy of the PaVeBa family, Auer, VOGP / eps-PAL for every design set); re-proved from scratch inside the checks"}],
 "checks": [], "notes": NOTES, "not_applicable": NOT_APPLICABLE}
for pid in sorted(CHECKS):
    c = CHECKS[pid]
    man["checks"].append({
        "property_id": pid, "quick_cmd": "./check %s quick" % pid, "thorough_cmd": "./check %s thorough" % pid,
        "evidence_file": "/verif/evidence/%s.json" % pid, "replay_cmd_template": "./check %s --replay {path}" % pid,
        "engine": "tlc", "level_claimed": {"category": "model_checking", "text": c["text"], "design_ref": c["ref"]},
        "level_note": c["note"], "technique": c["technique"]})
json.dump(man, open(os.path.join(ROOT, "MANIFEST.json"), "w"), indent=1)
print("wrote MANIFEST.json with", len(man["checks"]), "checks;", len(NOT_APPLICABLE), "not applicable")

#!/bin/sh
# usage: tools/seedtest_wt.sh <seed-dir-name> <check-id> [tier]
# Like seedtest.sh but WITHOUT touching /repo: the patch is applied in a scratch worktree and the check imports vopy from there
# (PYTHONPATH first).  For use while a background run is using /repo.  Evidence written by this run is NOT for committing.
set -u
export VERIF_EVIDENCE_DIR=/var/tmp/vopy-verif-seed-evidence     # runs against a seeded change never replace real evidence
S=/verif/seeded/$1; ID=$2; TIER=${3:-quick}; WT=/tmp/wt/_seedtest_$1_$ID
git -C /repo worktree add --detach "$WT" HEAD -q || exit 2
git -C "$WT" apply "$S/patch.diff" || { echo "patch does not apply"; git -C /repo worktree remove --force "$WT"; exit 2; }
cd /verif && PYTHONPATH="$WT" ./check "$ID" "$TIER" > /tmp/seedtest.$1.$ID.log 2>&1
rc=$?
grep -E "^(VIOLATION|MACHINERY)" /tmp/seedtest.$1.$ID.log | head -3
tail -1 /tmp/seedtest.$1.$ID.log | cut -c1-200
echo "seed=$1 check=$ID tier=$TIER exit=$rc (worktree)"
git -C /repo worktree remove --force "$WT"

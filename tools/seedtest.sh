#!/bin/sh
# usage: tools/seedtest.sh <seed-dir-name> <check-id> [tier]   -- applies seeded/<name>/patch.diff to /repo, runs the check, reverts.
set -u
export VERIF_EVIDENCE_DIR=/var/tmp/vopy-verif-seed-evidence     # runs against a seeded change never replace real evidence
S=/verif/seeded/$1; ID=$2; TIER=${3:-quick}
git -C /repo diff --quiet || { echo "/repo is dirty, refusing"; exit 2; }
git -C /repo apply "$S/patch.diff" || { echo "patch does not apply"; exit 2; }
trap 'git -C /repo checkout -- . ' EXIT INT TERM
cd /verif && ./check "$ID" "$TIER" > /tmp/seedtest.$1.$ID.log 2>&1
rc=$?
grep -E "^(VIOLATION|KNOWN-FINDING|MACHINERY)" /tmp/seedtest.$1.$ID.log | head -5
tail -1 /tmp/seedtest.$1.$ID.log
echo "seed=$1 check=$ID tier=$TIER exit=$rc"
exit 0

#!/bin/sh
# usage: tools/coverage.sh [ids...]   - which lines of /repo/vopy do the quick checks execute?  (diagnostic only, not a registered check)
# Evidence files are NOT touched: runs go through VERIF_EVIDENCE_DIR=/var/tmp/... so a coverage run never replaces a real run's evidence.
cd "$(dirname "$0")/.." || exit 2
D=/var/tmp/vopy-verif-cov
rm -rf "$D"; mkdir -p "$D/evidence"
export PYTHONHASHSEED=0 OMP_NUM_THREADS=1 MKL_NUM_THREADS=1 PYTHONWARNINGS=ignore VERIF_EVIDENCE_DIR="$D/evidence"
ids="${*:-C01 C02 C03 C05 C06 C07 C09 C10 C11 C12 C13 C14 C15 C16 C17 C18 C19 C20}"
for id in $ids; do
  /venv/bin/python -W ignore -m coverage run --rcfile=tools/coveragerc -m harness.run "$id" quick 2>&1 | tail -1
done
/venv/bin/python -m coverage combine --rcfile=tools/coveragerc -q
/venv/bin/python -m coverage report --rcfile=tools/coveragerc -m > "$D/report.txt"
tail -40 "$D/report.txt"
